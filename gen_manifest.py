#!/usr/bin/env python3
# Regenerates MANIFEST.json from claims.json (per-property level text) + properties.jsonl.
import json, subprocess
props=[json.loads(l) for l in open('/verif/properties.jsonl')]
claims=json.load(open('/verif/claims.json'))
hooks=subprocess.run(['git','-C','/repo','log','--format=%h %s'],capture_output=True,text=True).stdout.splitlines()
hook_commits=[l.split()[0] for l in hooks if l.split(' ',1)[1].startswith('verif:')]
checks=[]; na=[]
for p in props:
    pid=p['id']
    c=claims.get(pid)
    if c and c.get('claimed'):
        checks.append({
          "property_id":pid,
          "quick_cmd":f"./check.sh {pid} quick",
          "thorough_cmd":f"./check.sh {pid} thorough",
          "evidence_file":f"/verif/evidence/{pid}.json",
          "replay_cmd_template":"bin/sonicvc replay {path}",
          "engine":"sonicvc",
          "level_claimed":{"category":c.get("category","proof"),"text":c["text"],"design_ref":c.get("design_ref","DESIGN.md §7 "+pid)},
          "level_note":c["note"],
          "technique":c.get("technique","contract-based deductive verification: weakest-precondition style VCs generated from go/ssa of the real functions, contracts in //@ comment files, discharged by z3/cvc5")})
    else:
        na.append({"property_id":pid,"reason":(c or {}).get("reason","check not built yet (see DESIGN.md §11)")})
m={"version":1,
 "setup_cmd":"./build.sh",
 "hooks":{"guard":"verif","enable":"go build -tags verif (the checker loads /repo with build tag verif; contract files are comment-only)","baseline_off_cmd":"cd /repo && PATH=/opt/veriftools/go1.26.8/bin:$PATH GOFLAGS=-mod=mod GOTOOLCHAIN=local go test -json -vet=off -count=1 -timeout 25m ./...","source_commits":hook_commits,"add_only":True},
 "engines":[{"name":"sonicvc","path":"/verif/vc","serves_properties":[c["property_id"] for c in checks],"kind_free_text":"VC generator over go/ssa (x/tools v0.50.0) for Go functions under //@ contracts; SMT back ends z3 5.1.0, z3 4.8.12, cvc5 1.0.3; counterexample replay through go test -overlay"}],
 "checks":checks,
 "notes":"See DESIGN.md. Exit codes of every check: 0 all obligations discharged, 1 VIOLATION, 2 tool error/undecided (never reported as a violation).",
 "not_applicable":na}
json.dump(m,open('/verif/MANIFEST.json','w'),indent=1)
print(len(checks),'claimed',len(na),'not applicable')
