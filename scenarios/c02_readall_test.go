package sonic

// Scenario driver (replay for C02 asyncReadNow/asyncWriteNow "success of ReadAll/WriteAll means
// the whole buffer"): AsyncReadAll with fewer bytes available than the buffer holds must not
// report success with a short count.

import (
	"syscall"
	"testing"
)

func TestSonicvcScenarioC02ReadAllPartial(t *testing.T) {
	ioc := MustIO()
	defer ioc.Close()
	fds, err := syscall.Socketpair(syscall.AF_UNIX, syscall.SOCK_STREAM, 0)
	if err != nil {
		t.Fatal(err)
	}
	defer syscall.Close(fds[1])
	syscall.SetNonblock(fds[0], true)
	f := newFile(ioc, fds[0])
	defer f.Close()
	syscall.Write(fds[1], []byte("abc")) // 3 of the 10 bytes are available
	calls := 0
	var gotErr error
	gotN := -1
	buf := make([]byte, 10)
	f.AsyncReadAll(buf, func(err error, n int) { calls++; gotErr, gotN = err, n })
	t.Logf("after AsyncReadAll with 3/10 bytes available: calls=%d err=%v n=%d", calls, gotErr, gotN)
	if calls == 1 && gotErr == nil && gotN != len(buf) {
		t.Fatalf("SCENARIO-FAIL: AsyncReadAll reported success with n=%d of %d", gotN, len(buf))
	}
	syscall.Write(fds[1], []byte("defghij"))
	for i := 0; i < 5 && calls == 0; i++ {
		ioc.PollOne()
	}
	if calls != 1 || gotErr != nil || gotN != 10 || string(buf) != "abcdefghij" {
		t.Fatalf("SCENARIO-FAIL: calls=%d err=%v n=%d buf=%q", calls, gotErr, gotN, buf)
	}
}
