package websocket

// Scenario driver for C08 (at most one Close frame on the wire): we start the closing
// handshake, then the peer sends a frame with a reserved bit set. The stream must report the
// violation without queueing a second Close frame behind the one already sent.

import (
	"testing"

	"github.com/talostrading/sonic"
)

func TestSonicvcScenarioC08SecondClose(t *testing.T) {
	ioc := sonic.MustIO()
	defer ioc.Close()

	ws, err := NewWebsocketStream(ioc, nil, RoleClient)
	if err != nil {
		t.Fatal(err)
	}
	mock := NewMockStream()
	ws.state = StateActive
	ws.init(mock)

	if err := ws.Close(CloseNormal, "bye"); err != nil {
		t.Fatal(err)
	}
	if ws.State() != StateClosedByUs {
		t.Fatalf("state %v after Close", ws.State())
	}
	sent := 0
	countCloses := func() {
		// parse what reached the transport with an independent, minimal RFC 6455 reader
		mock.b.Commit(mock.b.WriteLen())
		data := mock.b.Data()
		for len(data) >= 2 {
			op := data[0] & 15
			n := int(data[1] & 127)
			hdr := 2
			if data[1]&128 != 0 {
				hdr += 4
			}
			if n >= 126 {
				t.Fatalf("unexpected long frame")
			}
			if len(data) < hdr+n {
				t.Fatalf("truncated frame on the wire")
			}
			if op == 8 {
				sent++
			}
			data = data[hdr+n:]
		}
		mock.b.Consume(mock.b.ReadLen())
	}
	countCloses()
	if sent != 1 {
		t.Fatalf("%d close frames after Close()", sent)
	}

	// peer: text frame with RSV1 set (no extension negotiated): a protocol violation
	bad := NewFrame()
	bad.SetFIN().SetText().SetPayload([]byte("x"))
	bad[0] |= 0x40
	if _, err := bad.WriteTo(ws.src); err != nil {
		t.Fatal(err)
	}
	if _, err := ws.NextFrame(); err == nil {
		t.Fatalf("violation not reported")
	}
	_ = ws.Flush()
	countCloses()
	if sent != 1 {
		t.Fatalf("VIOLATION C08: %d Close frames on the wire (a second Close was sent after ours)", sent)
	}
	if ws.Pending() != 0 {
		t.Fatalf("VIOLATION C08: %d frames still queued after our Close", ws.Pending())
	}
}
