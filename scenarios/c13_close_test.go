package sonic

// Scenario driver (replay for C13 (*file).Close/post/released): Close must release the
// descriptor even when removing its interests from the poller fails.

import (
	"os"
	"syscall"
	"testing"
)

func TestSonicvcScenarioC13CloseAfterPollerError(t *testing.T) {
	ioc := MustIO()
	defer ioc.Close()
	fds, err := syscall.Socketpair(syscall.AF_UNIX, syscall.SOCK_STREAM, 0)
	if err != nil {
		t.Fatal(err)
	}
	defer syscall.Close(fds[1])
	f := newFile(ioc, fds[0])
	f.slot.Set(1, func(error) {})
	if err := ioc.SetWrite(&f.slot); err != nil {
		t.Fatal(err)
	}
	// the descriptor number now refers to another open file (the socket was closed
	// underneath and the number reused): epoll_ctl on it fails with ENOENT
	other, err := os.Open("/dev/null")
	if err != nil {
		t.Fatal(err)
	}
	defer other.Close()
	if err := syscall.Dup2(int(other.Fd()), fds[0]); err != nil {
		t.Fatal(err)
	}
	cerr := f.Close()
	open := fdIsOpen(fds[0])
	t.Logf("Close() = %v; descriptor %d still open: %v; Pending()=%d", cerr, fds[0], open, ioc.Pending())
	if open {
		syscall.Close(fds[0])
		t.Fatalf("SCENARIO-FAIL: Close returned (%v) but left descriptor %d open; a second Close cannot release it", cerr, fds[0])
	}
}
