package sonic

// Scenario drivers (replays for C05): Post from inside a posted handler must not deadlock the
// loop, and posting concurrently with the loop arming/disarming operations must be free of
// data races (run with -race) and leave Pending() exact.

import (
	"sync"
	"syscall"
	"testing"
	"time"
)

func TestSonicvcScenarioC05NestedPost(t *testing.T) {
	ioc := MustIO()
	defer ioc.Close()
	done := make(chan struct{})
	ran := 0
	go func() {
		ioc.Post(func() {
			ran++
			ioc.Post(func() { ran++ }) // nested Post from a handler running on the loop
		})
		for i := 0; i < 3 && ioc.Pending() > 0; i++ {
			ioc.RunOneFor(50 * time.Millisecond)
		}
		close(done)
	}()
	select {
	case <-done:
		if ran != 2 || ioc.Pending() != 0 {
			t.Fatalf("SCENARIO-FAIL: ran=%d Pending()=%d", ran, ioc.Pending())
		}
	case <-time.After(3 * time.Second):
		t.Fatalf("SCENARIO-FAIL: loop deadlocked on a Post issued from inside a posted handler")
	}
}

func TestSonicvcScenarioC05ConcurrentPost(t *testing.T) {
	ioc := MustIO()
	defer ioc.Close()
	fds, err := syscall.Socketpair(syscall.AF_UNIX, syscall.SOCK_STREAM, 0)
	if err != nil {
		t.Fatal(err)
	}
	defer syscall.Close(fds[0])
	defer syscall.Close(fds[1])
	f := newFile(ioc, fds[0])
	f.slot.Set(0, func(error) {})
	const posts = 2000
	var wg sync.WaitGroup
	wg.Add(1)
	executed := 0
	go func() {
		defer wg.Done()
		for i := 0; i < posts; i++ {
			ioc.Post(func() { executed++ })
		}
	}()
	// meanwhile the loop goroutine arms and disarms an operation and polls
	deadline := time.Now().Add(5 * time.Second)
	for executed < posts && time.Now().Before(deadline) {
		_ = ioc.SetRead(&f.slot)
		_ = ioc.UnsetRead(&f.slot)
		ioc.PollOne()
	}
	wg.Wait()
	for ioc.Posted() > 0 && time.Now().Before(deadline) {
		ioc.PollOne()
	}
	if executed != posts || ioc.Pending() != 0 {
		t.Fatalf("SCENARIO-FAIL: executed=%d of %d, Pending()=%d", executed, posts, ioc.Pending())
	}
}
