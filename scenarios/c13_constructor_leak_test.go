package sonic

// Scenario driver for C13 (a constructor that fails leaves the process with exactly the
// descriptors it had before): NewPacketConn on an address that is that is not local fails in
// bind(2), after socket(2) has succeeded.

import (
	"net"
	"os"
	"testing"

	"github.com/talostrading/sonic/sonicopts"
)

func countFds(t *testing.T) int {
	ents, err := os.ReadDir("/proc/self/fd")
	if err != nil {
		t.Skip("no /proc/self/fd")
	}
	return len(ents)
}

func TestSonicvcScenarioC13PacketConnBindFailure(t *testing.T) {
	ioc := MustIO()
	defer ioc.Close()
	// 192.0.2.0/24 (TEST-NET-1) is never assigned to a local interface: bind fails with EADDRNOTAVAIL
	addr := "192.0.2.1:9"
	before := countFds(t)
	for i := 0; i < 5; i++ {
		if pc, err := NewPacketConn(ioc, "udp", addr); err == nil {
			pc.Close()
			t.Skip("binding a foreign address succeeded")
		}
	}
	if after := countFds(t); after != before {
		t.Fatalf("VIOLATION C13: 5 failed NewPacketConn calls left %d descriptors behind", after-before)
	}
}

func TestSonicvcScenarioC13DialRefused(t *testing.T) {
	ioc := MustIO()
	defer ioc.Close()
	// a port nobody listens on: take one from the kernel and close it again
	ln, err := Listen(ioc, "tcp", "127.0.0.1:0")
	if err != nil {
		t.Fatal(err)
	}
	addr := ln.Addr().String()
	ln.Close()
	before := countFds(t)
	for i := 0; i < 5; i++ {
		if c, err := Dial(ioc, "tcp", addr); err == nil {
			c.Close()
			t.Skip("connecting to a closed port succeeded")
		}
	}
	if after := countFds(t); after != before {
		t.Fatalf("VIOLATION C13: 5 refused Dial calls left %d descriptors behind", after-before)
	}
}

func TestSonicvcScenarioC13DialUDPBindFailure(t *testing.T) {
	ioc := MustIO()
	defer ioc.Close()
	before := countFds(t)
	for i := 0; i < 5; i++ {
		// binding the local end to an address that is not local (TEST-NET-1) fails
		if c, err := Dial(ioc, "udp", "127.0.0.1:9",
			sonicopts.BindSocket(&net.UDPAddr{IP: net.IPv4(192, 0, 2, 1), Port: 9})); err == nil {
			c.Close()
			t.Skip("connect succeeded")
		}
	}
	if after := countFds(t); after != before {
		t.Fatalf("VIOLATION C13: 5 failed UDP Dial calls left %d descriptors behind", after-before)
	}
}
