package sonic

// Scenario driver (replay for C01 Poll "hang-up completes the armed read"): a read pending on
// a FIFO whose writer hangs up must complete (with EOF), not stay armed forever.

import (
	"os"
	"syscall"
	"testing"
)

func TestSonicvcScenarioC01PipeHangup(t *testing.T) {
	ioc := MustIO()
	defer ioc.Close()
	r, w, err := os.Pipe()
	if err != nil {
		t.Fatal(err)
	}
	fd := int(r.Fd())
	if err := syscall.SetNonblock(fd, true); err != nil {
		t.Fatal(err)
	}
	f := newFile(ioc, fd)
	calls := 0
	var gotErr error
	f.AsyncRead(make([]byte, 16), func(err error, n int) { calls++; gotErr = err })
	if calls != 0 || ioc.Pending() != 1 {
		t.Fatalf("setup: calls=%d pending=%d", calls, ioc.Pending())
	}
	w.Close() // the only writer hangs up: the kernel reports EPOLLHUP (without EPOLLIN)
	for i := 0; i < 5 && calls == 0; i++ {
		n, perr := ioc.PollOne()
		t.Logf("PollOne -> n=%d err=%v calls=%d pending=%d", n, perr, calls, ioc.Pending())
	}
	if calls != 1 {
		t.Fatalf("SCENARIO-FAIL: read callback invoked %d times after the writer hung up (pending=%d)", calls, ioc.Pending())
	}
	t.Logf("completed with err=%v", gotErr)
}
