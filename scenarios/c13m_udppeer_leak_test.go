package multicast

// Scenario driver for C13 (a constructor that fails leaves the process with exactly the
// descriptors it had before): NewUDPPeer on an address that is not local fails in bind(2),
// after socket(2) has succeeded.

import (
	"os"
	"testing"

	"github.com/talostrading/sonic"
)

func TestSonicvcScenarioC13UDPPeerBindFailure(t *testing.T) {
	ioc := sonic.MustIO()
	defer ioc.Close()
	ents, err := os.ReadDir("/proc/self/fd")
	if err != nil {
		t.Skip("no /proc/self/fd")
	}
	before := len(ents)
	for i := 0; i < 5; i++ {
		// 192.0.2.0/24 (TEST-NET-1) is never assigned to a local interface
		if p, err := NewUDPPeer(ioc, "udp", "192.0.2.1:9"); err == nil {
			p.Close()
			t.Skip("binding a foreign address succeeded")
		}
	}
	ents, _ = os.ReadDir("/proc/self/fd")
	if len(ents) != before {
		t.Fatalf("VIOLATION C13: 5 failed NewUDPPeer calls left %d descriptors behind", len(ents)-before)
	}
}
