package sonic

// Scenario driver (replay for C04 internal.(*Timer).Set$1 "callback only after the delay has
// elapsed"): a timer that expired is cancelled and re-armed for an hour by another handler
// that became ready in the same poll batch. Its callback must not run now.

import (
	"syscall"
	"testing"
	"time"
)

func TestSonicvcScenarioC04StaleExpiry(t *testing.T) {
	ioc := MustIO()
	defer ioc.Close()
	fds, err := syscall.Socketpair(syscall.AF_UNIX, syscall.SOCK_STREAM, 0)
	if err != nil {
		t.Fatal(err)
	}
	defer syscall.Close(fds[1])
	syscall.SetNonblock(fds[0], true)
	f := newFile(ioc, fds[0]) // registered before the timer: epoll reports it first
	defer f.Close()
	timer, err := NewTimer(ioc)
	if err != nil {
		t.Fatal(err)
	}
	defer timer.Close()
	fired := 0
	var firedAfter time.Duration
	var rearmedAt time.Time
	f.AsyncRead(make([]byte, 8), func(err error, n int) {
		// sibling handler in the same batch: cancel the (already expired) timer, re-arm for 1h
		if err := timer.Cancel(); err != nil {
			t.Errorf("cancel: %v", err)
		}
		rearmedAt = time.Now()
		if err := timer.ScheduleOnce(time.Hour, func() { fired++; firedAfter = time.Since(rearmedAt) }); err != nil {
			t.Errorf("reschedule: %v", err)
		}
	})
	if err := timer.ScheduleOnce(5*time.Millisecond, func() { fired += 100 }); err != nil {
		t.Fatal(err)
	}
	syscall.Write(fds[1], []byte("x"))
	time.Sleep(30 * time.Millisecond) // both the socket and the timerfd are ready now
	for i := 0; i < 3; i++ {
		ioc.PollOne()
	}
	if fired != 0 {
		t.Fatalf("SCENARIO-FAIL: callback ran (fired=%d) %v after being scheduled for 1h", fired, firedAfter)
	}
	if !timer.Scheduled() {
		t.Fatalf("SCENARIO-FAIL: the re-armed timer is no longer scheduled")
	}
	if ioc.Pending() != 1 {
		t.Fatalf("SCENARIO-FAIL: Pending()=%d, want 1 (the re-armed timer)", ioc.Pending())
	}
}
