package sonic

import (
	"reflect"
	"syscall"
	"unsafe"
)

// closeRawFd closes the timerfd behind the timer's back (unexported field of internal.Timer).
func closeRawFd(t *Timer) {
	v := reflect.ValueOf(t.it).Elem().FieldByName("fd")
	fd := *(*int)(unsafe.Pointer(v.UnsafeAddr()))
	syscall.Close(fd)
}
