package sonic

// Scenario drivers (replays for C04): a closed timer cannot be revived by Cancel; closing a
// timer whose descriptor went away underneath still leaves nothing pending.

import (
	"testing"
	"time"
)

func TestSonicvcScenarioC04CancelAfterClose(t *testing.T) {
	ioc := MustIO()
	defer ioc.Close()
	timer, err := NewTimer(ioc)
	if err != nil {
		t.Fatal(err)
	}
	if err := timer.Close(); err != nil {
		t.Fatal(err)
	}
	_ = timer.Cancel()
	ran := false
	err = timer.ScheduleOnce(0, func() { ran = true })
	t.Logf("after Close+Cancel: ScheduleOnce(0) = %v, callback ran = %v", err, ran)
	if err == nil || ran {
		t.Fatalf("SCENARIO-FAIL: closed timer was revived by Cancel (err=%v ran=%v)", err, ran)
	}
	if err := timer.ScheduleOnce(time.Millisecond, func() {}); err == nil {
		t.Fatalf("SCENARIO-FAIL: closed timer accepted a schedule")
	}
}

func TestSonicvcScenarioC04CloseWithDeadDescriptor(t *testing.T) {
	ioc := MustIO()
	defer ioc.Close()
	timer, err := NewTimer(ioc)
	if err != nil {
		t.Fatal(err)
	}
	if err := timer.ScheduleOnce(time.Hour, func() {}); err != nil {
		t.Fatal(err)
	}
	if ioc.Pending() != 1 {
		t.Fatalf("setup: Pending()=%d", ioc.Pending())
	}
	closeRawFd(timer) // the descriptor is closed underneath: timerfd_settime now fails with EBADF
	_ = timer.Close()
	t.Logf("after Close: Pending()=%d", ioc.Pending())
	if ioc.Pending() != 0 {
		t.Fatalf("SCENARIO-FAIL: Pending()=%d after closing the only timer", ioc.Pending())
	}
}
