package websocket

// Scenario driver for C16 (bytes written == header + declared payload, nothing trailing): a
// ping without payload built on a frame from the pool, written after a longer message.

import (
	"testing"

	"github.com/talostrading/sonic"
)

func TestSonicvcScenarioC16UntrimmedFrame(t *testing.T) {
	ioc := sonic.MustIO()
	defer ioc.Close()
	ws, err := NewWebsocketStream(ioc, nil, RoleClient)
	if err != nil {
		t.Fatal(err)
	}
	mock := NewMockStream()
	ws.state = StateActive
	ws.init(mock)

	wire := func() []byte {
		mock.b.Commit(mock.b.WriteLen())
		out := append([]byte{}, mock.b.Data()...)
		mock.b.Consume(mock.b.ReadLen())
		return out
	}
	// a 200-byte message first, so that the pooled frame has been long
	if err := ws.Write(make([]byte, 200), TypeBinary); err != nil {
		t.Fatal(err)
	}
	if n := len(wire()); n != 2+2+4+200 {
		t.Fatalf("message: %d bytes on the wire, want %d", n, 2+2+4+200)
	}
	// then a caller-built ping without payload
	f := ws.AcquireFrame()
	f.SetFIN().SetPing()
	if err := ws.WriteFrame(f); err != nil {
		t.Fatal(err)
	}
	got := wire()
	if len(got) != 2+4 {
		t.Fatalf("VIOLATION C16: ping without payload put %d bytes on the wire, want 6 (header + mask): % x", len(got), got[:min(len(got), 24)])
	}
	if got[0] != 0x89 || got[1] != 0x80 {
		t.Fatalf("VIOLATION C16: wrong ping header % x", got[:2])
	}
}
