package sonic

// Scenario driver for C13 (closing an object more than once never closes a descriptor the
// object no longer owns): after the first Close the kernel hands the descriptor number to a
// file opened by someone else; the second Close must leave that file alone.

import (
	"os"
	"testing"
)

// takeNumber opens /dev/null until the new file gets descriptor number fd (the kernel reuses
// the lowest free number); the files opened on the way are kept open until the test ends.
func takeNumber(t *testing.T, fd int) *os.File {
	for i := 0; i < 64; i++ {
		f, err := os.Open("/dev/null")
		if err != nil {
			t.Fatal(err)
		}
		t.Cleanup(func() { f.Close() })
		if int(f.Fd()) == fd {
			return f
		}
	}
	t.Skipf("descriptor number %d was not handed out again", fd)
	return nil
}

func TestSonicvcScenarioC13ListenerDoubleClose(t *testing.T) {
	ioc := MustIO()
	defer ioc.Close()
	ln, err := Listen(ioc, "tcp", "localhost:0")
	if err != nil {
		t.Fatal(err)
	}
	fd := ln.RawFd()
	if err := ln.Close(); err != nil {
		t.Fatal(err)
	}
	other := takeNumber(t, fd)
	_ = ln.Close()
	if !fdIsOpen(int(other.Fd())) {
		t.Fatalf("VIOLATION C13: the second Close of the listener closed descriptor %d, which now belongs to another file", fd)
	}
}

func TestSonicvcScenarioC13PacketConnDoubleClose(t *testing.T) {
	ioc := MustIO()
	defer ioc.Close()
	pc, err := NewPacketConn(ioc, "udp", "localhost:0")
	if err != nil {
		t.Fatal(err)
	}
	fd := pc.RawFd()
	if err := pc.Close(); err != nil {
		t.Fatal(err)
	}
	other := takeNumber(t, fd)
	_ = pc.Close()
	if !fdIsOpen(int(other.Fd())) {
		t.Fatalf("VIOLATION C13: the second Close of the packet conn closed descriptor %d, which now belongs to another file", fd)
	}
}
