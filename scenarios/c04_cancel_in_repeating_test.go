package sonic

// Scenario driver for C04 (ScheduleRepeating runs its callback until cancelled, including when
// cancelled from inside its own callback): the repeating callback cancels the timer and uses it
// for an immediate one-shot. The repetition must stop.

import (
	"testing"
	"time"
)

func TestSonicvcScenarioC04CancelThenImmediateOnceInsideRepeating(t *testing.T) {
	ioc := MustIO()
	defer ioc.Close()
	timer, err := NewTimer(ioc)
	if err != nil {
		t.Fatal(err)
	}
	defer timer.Close()
	runs, once := 0, 0
	err = timer.ScheduleRepeating(2*time.Millisecond, func() {
		runs++
		if runs == 1 {
			if err := timer.Cancel(); err != nil {
				t.Errorf("cancel: %v", err)
			}
			if err := timer.ScheduleOnce(0, func() { once++ }); err != nil {
				t.Errorf("schedule once: %v", err)
			}
		}
	})
	if err != nil {
		t.Fatal(err)
	}
	deadline := time.Now().Add(60 * time.Millisecond)
	for time.Now().Before(deadline) {
		_ = ioc.RunOneFor(5 * time.Millisecond)
	}
	if once != 1 {
		t.Fatalf("the immediate one-shot ran %d times, want 1", once)
	}
	if runs != 1 || timer.Scheduled() {
		t.Fatalf("VIOLATION C04: repeating callback ran %d times after being cancelled from inside its first run (Scheduled()=%v)", runs, timer.Scheduled())
	}
}
