package sonic

import "syscall"

func fdIsOpen(fd int) bool {
	var st syscall.Stat_t
	return syscall.Fstat(fd, &st) == nil
}
