package ipv4

// Scenario driver for C12 (reported settings equal the socket's kernel state): the kernel's
// IP_MULTICAST_LOOP value of a fresh UDP socket against what GetMulticastLoop reports, before
// and after SetMulticastLoop.

import (
	"syscall"
	"testing"

	"github.com/talostrading/sonic"
)

func TestSonicvcScenarioC12LoopGetter(t *testing.T) {
	sock, err := sonic.NewSocket(sonic.SocketDomainIPv4, sonic.SocketTypeDatagram, 0)
	if err != nil {
		t.Fatal(err)
	}
	defer sock.Close()
	for _, set := range []int{-1, 0, 1} {
		if set >= 0 {
			if err := SetMulticastLoop(sock, set == 1); err != nil {
				t.Fatal(err)
			}
		}
		kernel, err := syscall.GetsockoptInt(sock.RawFd(), syscall.IPPROTO_IP, syscall.IP_MULTICAST_LOOP)
		if err != nil {
			t.Fatal(err)
		}
		got, err := GetMulticastLoop(sock)
		if err != nil {
			t.Fatal(err)
		}
		if got != (kernel != 0) {
			t.Errorf("VIOLATION C12: kernel IP_MULTICAST_LOOP=%d (set=%d) but GetMulticastLoop reports %v", kernel, set, got)
		}
	}
}
