package websocket

// Scenario driver (replay for C16 (*Frame).SetPayload pre setPayloadLength "len >= 10"): a pooled
// frame that carried an empty payload is reused for a payload needing the 64-bit length field.

import "testing"

func TestSonicvcScenarioC16PooledFrameReuse(t *testing.T) {
	s, err := NewWebsocketStream(nil, nil, RoleClient)
	if err != nil {
		t.Fatal(err)
	}
	// first use: an empty payload shrinks the frame to 2 + 4 bytes
	f := s.AcquireFrame()
	f.SetFIN().SetBinary().SetPayload(nil)
	t.Logf("after the empty payload: len(frame)=%d", len(*f))
	s.releaseFrame(f)
	// second use (the pool hands the same frame back): 70000 bytes need the 8-byte length
	defer func() {
		if r := recover(); r != nil {
			t.Fatalf("SCENARIO-FAIL: SetPayload panicked on a reused pooled frame: %v", r)
		}
	}()
	g := s.AcquireFrame()
	payload := make([]byte, 70000)
	g.SetFIN().SetBinary().SetPayload(payload)
	if g.PayloadLength() != len(payload) || len(*g) != 2+8+4+len(payload) {
		t.Fatalf("SCENARIO-FAIL: wrong frame: declared=%d len=%d", g.PayloadLength(), len(*g))
	}
}
