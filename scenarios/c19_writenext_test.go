package frame

// Scenario driver (replay for C19 CodecConn.WriteNext/post/nothing-left): a CodecConn over the
// length-prefixed codec must put the item on the wire when WriteNext reports success.

import (
	"bytes"
	"testing"

	"github.com/talostrading/sonic"
)

type c19Sink struct{ bytes.Buffer }

func (s *c19Sink) Read(b []byte) (int, error)                          { return 0, nil }
func (s *c19Sink) AsyncRead(b []byte, cb sonic.AsyncCallback)          {}
func (s *c19Sink) AsyncReadAll(b []byte, cb sonic.AsyncCallback)       {}
func (s *c19Sink) AsyncWrite(b []byte, cb sonic.AsyncCallback)         {}
func (s *c19Sink) AsyncWriteAll(b []byte, cb sonic.AsyncCallback)      {}
func (s *c19Sink) Cancel()                                             {}
func (s *c19Sink) Close() error                                        { return nil }
func (s *c19Sink) RawFd() int                                          { return -1 }

func TestSonicvcScenarioC19(t *testing.T) {
	src, dst := sonic.NewByteBuffer(), sonic.NewByteBuffer()
	sink := &c19Sink{}
	conn, err := sonic.NewCodecConn[[]byte, []byte](sink, NewCodec(src), src, dst)
	if err != nil {
		t.Fatal(err)
	}
	n, err := conn.WriteNext([]byte("hello"))
	if err != nil {
		t.Fatal(err)
	}
	left := dst.WriteLen() + dst.ReadLen()
	t.Logf("WriteNext returned n=%d err=%v; bytes on the wire=%d; left behind in dst=%d", n, err, sink.Len(), left)
	if sink.Len() != HeaderLen+5 || left != 0 {
		t.Fatalf("SCENARIO-FAIL: item not sent (wire=%d) or left behind (%d)", sink.Len(), left)
	}
}
