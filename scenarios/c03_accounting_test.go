package sonic

// Scenario drivers (replays for C03): registrations that fail must not be counted, and
// UnsetReadWrite must clear both directions whatever epoll_ctl answers.

import (
	"os"
	"syscall"
	"testing"
)

func TestSonicvcScenarioC03FailedRegistration(t *testing.T) {
	ioc := MustIO()
	defer ioc.Close()
	tmp, err := os.CreateTemp("", "sonicvc-c03-")
	if err != nil {
		t.Fatal(err)
	}
	defer os.Remove(tmp.Name())
	tmp.Close()
	f, err := Open(ioc, tmp.Name(), os.O_RDONLY, 0)
	if err != nil {
		t.Fatal(err)
	}
	ioc.Dispatched = MaxCallbackDispatch // force the deferred path: epoll_ctl on a regular file fails with EPERM
	called := 0
	var cbErr error
	f.AsyncRead(make([]byte, 8), func(err error, n int) { called++; cbErr = err })
	ioc.Dispatched = 0
	t.Logf("callback invoked %d time(s) with err=%v; Pending()=%d", called, cbErr, ioc.Pending())
	if called != 1 || cbErr == nil {
		t.Fatalf("expected the registration failure to be reported once")
	}
	if ioc.Pending() != 0 {
		t.Fatalf("SCENARIO-FAIL: Pending()=%d after a registration that failed", ioc.Pending())
	}
}

func TestSonicvcScenarioC03DelBothDirections(t *testing.T) {
	ioc := MustIO()
	defer ioc.Close()
	fds, err := syscall.Socketpair(syscall.AF_UNIX, syscall.SOCK_STREAM, 0)
	if err != nil {
		t.Fatal(err)
	}
	defer syscall.Close(fds[1])
	f := newFile(ioc, fds[0])
	if err := ioc.SetRead(&f.slot); err != nil {
		t.Fatal(err)
	}
	if err := ioc.SetWrite(&f.slot); err != nil {
		t.Fatal(err)
	}
	if ioc.Pending() != 2 {
		t.Fatalf("setup: Pending()=%d", ioc.Pending())
	}
	syscall.Close(fds[0]) // descriptor closed underneath: epoll_ctl now fails with EBADF
	_ = ioc.UnsetReadWrite(&f.slot)
	t.Logf("after UnsetReadWrite: Events=%d Pending()=%d", f.slot.Events, ioc.Pending())
	if f.slot.Events != 0 || ioc.Pending() != 0 {
		t.Fatalf("SCENARIO-FAIL: Events=%d Pending()=%d after UnsetReadWrite", f.slot.Events, ioc.Pending())
	}
}
