#!/bin/bash
# dev helper: sync contracts into /repo, then run sonicvc verify with the given patterns
cd /verif && ./sync-contracts.sh && bin/sonicvc verify "$@" 2>&1 | grep -v "model:" | cut -c1-${COLS:-220}
