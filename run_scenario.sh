#!/bin/bash
# usage: run_scenario.sh <scenario file> <package dir relative to /repo> [repo] [extra go test flags]
# Injects the scenario test into the package with -overlay and runs it.
set -u
F="$(readlink -f "$1")"; PKG="$2"; REPO="${3:-/repo}"; EXTRA="${4:-}"
D=$(mktemp -d /var/tmp/sonicvc-scn-XXXX)
trap 'rm -rf "$D"' EXIT
# helper files next to the scenario named <prefix>_*helper_test.go are injected too
OV="\"$REPO/$PKG/zz_sonicvc_scenario_test.go\":\"$F\""
i=0
for H in "$(dirname "$F")"/$(basename "$F" | cut -d_ -f1)_*helper_test.go; do
  [ -f "$H" ] || continue
  i=$((i+1)); OV="$OV,\"$REPO/$PKG/zz_sonicvc_helper${i}_test.go\":\"$H\""
done
echo "{\"Replace\":{$OV}}" > "$D/ov.json"
cd "$REPO" && PATH=/opt/veriftools/go1.26.8/bin:$PATH GOFLAGS=-mod=mod GOPROXY=off GOSUMDB=off GOTOOLCHAIN=local \
  go test $EXTRA -overlay "$D/ov.json" -vet=off -count=1 -timeout 120s -run 'TestSonicvcScenario' -v "./$PKG" 2>&1 | tail -15
