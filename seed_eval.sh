#!/bin/bash
# usage: seed_eval.sh <property> <agent out dir> <n> <seed id> [package dir for the demo, default .] [test regex]
# 1. confirms on a scratch worktree of /repo HEAD: demo passes without the change, fails with it,
#    and the package's existing tests still pass with the change;
# 2. applies the change to /repo, runs the property's quick check, undoes the change;
# 3. stores patch, demo and meta.json under /verif/seeded/<seed id>/.
set -u
PROP="$1"; OUT="$2"; N="$3"; ID="$4"; PKG="${5:-.}"; TESTS="${6:-.}"
export PATH=/opt/veriftools/go1.26.8/bin:$PATH GOFLAGS=-mod=mod GOPROXY=off GOSUMDB=off GOTOOLCHAIN=local
W=/var/tmp/seedwt_$$
git -C /repo worktree add -q --detach "$W" HEAD || exit 2
cleanup() { git -C /repo worktree remove --force "$W" 2>/dev/null; rm -rf "$W"; }
trap cleanup EXIT
DEMO="$OUT/demo${N}_test.go"; PATCH="$OUT/change${N}.diff"
cp "$DEMO" "$W/$PKG/zz_seed_demo_test.go"
TESTNAME=$(grep -o 'func TestSeeded[A-Za-z0-9_]*' "$DEMO" | head -1 | sed 's/func //')
base=$(cd "$W" && go test -count=1 -vet=off -timeout 120s -run "^${TESTNAME}\$" "./$PKG" 2>&1 | tail -3)
echo "$base" | grep -q "^ok" && BASE_OK=1 || BASE_OK=0
(cd "$W" && git apply "$PATCH") || { echo "PATCH DOES NOT APPLY"; exit 2; }
with=$(cd "$W" && go test -count=1 -vet=off -timeout 120s -run "^${TESTNAME}\$" "./$PKG" 2>&1 | tail -5)
echo "$with" | grep -q "^ok" && WITH_FAILS=0 || WITH_FAILS=1
rm "$W/$PKG/zz_seed_demo_test.go"
# the suite binds fixed TCP ports: run it in a private network namespace so that neither other
# test runs nor TIME_WAIT sockets make it fail for unrelated reasons
NS="unshare -n --"; [ -n "${NONETNS:-}" ] && NS=""   # the multicast suite needs a multicast route: NONETNS=1
suite=$(cd "$W" && $NS bash -c "ip link set lo up 2>/dev/null; go test -count=1 -vet=off -timeout 15m -run '$TESTS' ${SKIP:+-skip '$SKIP'} './$PKG'" 2>&1 | tail -3)
echo "$suite" | grep -q "^ok" && SUITE_OK=1 || SUITE_OK=0
echo "demo on unchanged tree passes: $BASE_OK; demo with change fails: $WITH_FAILS; existing tests pass with change: $SUITE_OK"
# run the check against /repo with the change applied
git -C /repo apply "$PATCH" || { echo "PATCH DOES NOT APPLY TO /repo"; exit 2; }
# evidence and replays of this run go to scratch files: /verif/evidence describes the unchanged tree only
ET=$(mktemp -d /var/tmp/sonicvc-seedev-XXXX)
chk=$(cd /verif && ./build.sh >/dev/null 2>&1; bin/sonicvc check --property "$PROP" --tier quick --evidence "$ET/ev.json" 2>&1); rc=$?
rm -rf "$ET"
git -C /repo checkout -- .
echo "check exit=$rc"; echo "$chk" | grep -E "VIOLATION|obligation" | head -6 | cut -c1-260
mkdir -p "/verif/seeded/$ID"
cp "$PATCH" "/verif/seeded/$ID/patch.diff"; cp "$DEMO" "/verif/seeded/$ID/$(basename "$DEMO")"
python3 - "$PROP" "$ID" "$BASE_OK" "$WITH_FAILS" "$SUITE_OK" "$rc" "$OUT" "$N" <<'PY'
import json,sys,re
prop,sid,base,withf,suite,rc,out,n=sys.argv[1:9]
notes=''
try:
    notes=open(out+'/notes.md').read()
except Exception: pass
chk=sys.stdin.read() if False else ''
meta={"property":prop,"seed":sid,"demo_passes_on_unchanged_tree":base=="1","demo_fails_with_change":withf=="1",
      "existing_tests_pass_with_change":suite=="1","check_exit_code_with_change":int(rc),"caught":rc=="1",
      "needs_to_manifest":notes[:3000],
      "what_was_run":"seed_eval.sh: demo test on a scratch worktree of /repo HEAD with and without the change, the package's existing tests with the change, then ./check.sh %s quick on /repo with the change applied (undone afterwards)"%prop}
json.dump(meta,open('/verif/seeded/%s/meta.json'%sid,'w'),indent=1)
PY
