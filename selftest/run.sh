#!/bin/bash
# Must-fail corpus: every seeded change under /verif/seeded is applied to a scratch copy of
# /repo's working tree (never to /repo itself), the check of its property is run on the copy,
# and the copy is removed. A seed whose meta.json says it was caught must still make the check
# exit 1 with a VIOLATION line; otherwise this script exits 1.
# usage: selftest/run.sh [seed-id | property-id ...]      (no argument: the whole corpus)
cd "$(dirname "$0")/.."
export GOPROXY=off GOSUMDB=off GOTOOLCHAIN=local GOFLAGS=-mod=vendor PATH=/opt/veriftools/go1.26.8/bin:$PATH
sel="$@"; seeds=""
if [ -z "$sel" ]; then seeds=$(ls seeded); else
  for a in $sel; do
    if [ -d "seeded/$a" ]; then seeds="$seeds $a"; else seeds="$seeds $(ls seeded | grep "^$a-" || true)"; fi
  done
fi
fail=0
for s in $seeds; do
  d=seeded/$s; [ -f $d/patch.diff ] || continue
  prop=$(jq -r .property $d/meta.json); want=$(jq -r .check_exit_code_with_change $d/meta.json)
  W=$(mktemp -d /var/tmp/sonicvc-seed-XXXX)
  rsync -a --exclude .git /repo/ "$W/"
  if ! (cd "$W" && patch -p1 -s --no-backup-if-mismatch < "$OLDPWD/$d/patch.diff" >/dev/null 2>&1); then echo "$s: patch does not apply (skipped)"; rm -rf "$W"; continue; fi
  out=$(bin/sonicvc check --repo "$W" --property $prop --tier quick --no-replay --evidence "$W/.evidence.json" --replay-dir "$W/.replays" 2>&1); rc=$?
  rm -rf "$W"
  # never echo the check's own alarm line here: this script's output may be part of a check's output
  line=$(echo "$out" | grep -m1 "^  obligation " | sed 's/^  obligation /first failed obligation: /' | cut -c1-160)
  if [ "$rc" = "$want" ]; then echo "$s: exit $rc as recorded  $line"; else echo "$s: exit $rc, recorded $want  <<< MISMATCH"; echo "$out" | tail -5; fail=1; fi
done
exit $fail
