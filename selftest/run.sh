#!/bin/bash
# Must-fail corpus: every seeded change under /verif/seeded is applied to /repo in turn, the
# check of its property is run, and the change is undone again. A seed whose meta.json says it
# was caught must still make the check exit 1 with a VIOLATION line; otherwise this script fails.
# usage: selftest/run.sh [seed-id ...]
cd "$(dirname "$0")/.."
if [ -n "$(git -C /repo status --porcelain)" ]; then echo "selftest: /repo has uncommitted changes, refusing"; exit 2; fi
fail=0
seeds="$@"; [ -z "$seeds" ] && seeds=$(ls seeded)
for s in $seeds; do
  d=seeded/$s; [ -f $d/patch.diff ] || continue
  prop=$(jq -r .property $d/meta.json); want=$(jq -r .check_exit_code_with_change $d/meta.json)
  if ! git -C /repo apply "$PWD/$d/patch.diff" 2>/dev/null; then echo "$s: patch does not apply (skipped)"; continue; fi
  out=$(./check.sh $prop quick 2>&1); rc=$?
  git -C /repo checkout -- . ; git -C /repo clean -fdq 2>/dev/null
  line=$(echo "$out" | grep -m1 "^VIOLATION")
  if [ "$rc" = "$want" ]; then echo "$s: exit $rc as recorded  $line"; else echo "$s: exit $rc, recorded $want  <<< MISMATCH"; echo "$out" | tail -5; fail=1; fi
done
exit $fail
