#!/bin/bash
# Mutation sample for one property (sensitivity report of the thorough tier, never gating):
# N small syntactic changes inside the functions whose contracts carry the property are applied,
# one at a time, to a scratch copy of /repo's working tree; the property's quick check runs on
# the copy. "noticed" = the check reports a violation; "undecided" = the mutant does not compile
# or a contract clause no longer fits; "not noticed" = the check still passes (the mutant may be
# equivalent, or outside what the contracts pin down).
# usage: selftest/mutants.sh <property> [n] [seed]
cd "$(dirname "$0")/.."
export GOPROXY=off GOSUMDB=off GOTOOLCHAIN=local GOFLAGS=-mod=vendor PATH=/opt/veriftools/go1.26.8/bin:$PATH
PROP="$1"; N="${2:-12}"; SEED="${3:-${VERIF_SEED:-1}}"
T=$(mktemp -d /var/tmp/sonicvc-mut-XXXX)
trap 'rm -rf "$T"' EXIT
bin/sonicvc mutants --property "$PROP" --n "$N" --seed "$SEED" --out "$T/m.json" >/dev/null 2>&1 || { echo "mutation sample for $PROP: no mutants"; exit 0; }
cnt=$(jq length "$T/m.json"); noticed=0; undec=0; missed=0
for i in $(seq 0 $((cnt-1))); do
  W="$T/w"; rm -rf "$W"; mkdir -p "$W"; rsync -a --exclude .git /repo/ "$W/"
  f=$(jq -r ".[$i].file" "$T/m.json"); jq -r ".[$i].source" "$T/m.json" > "$W/$f"
  desc="$(jq -r ".[$i].func" "$T/m.json") line $(jq -r ".[$i].line" "$T/m.json"): $(jq -r ".[$i].what" "$T/m.json")"
  bin/sonicvc check --repo "$W" --property "$PROP" --tier quick --no-replay --evidence "$T/ev.json" --replay-dir "$T/rp" >"$T/out.txt" 2>&1; rc=$?
  case $rc in
    1) noticed=$((noticed+1)); echo "  noticed      $desc  [$(grep -m1 '^  obligation ' "$T/out.txt" | awk '{print $2}' | cut -c1-70)]" ;;
    0) missed=$((missed+1));   echo "  not noticed  $desc" ;;
    *) undec=$((undec+1));     echo "  undecided    $desc" ;;
  esac
done
echo "mutation sample for $PROP (seed $SEED): $cnt mutants, $noticed noticed, $missed not noticed, $undec undecided"
