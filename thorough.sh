#!/bin/bash
# thorough tier: 60 s per obligation, all three back ends must agree, then the must-fail /
# must-pass corpus for the property on scratch copies (sensitivity report, never gating).
set -u
cd "$(dirname "$0")"
PROP="$1"
bin/sonicvc check --property "$PROP" --tier thorough
rc=$?
if [ -x selftest/run.sh ]; then
  selftest/run.sh "$PROP" || true
fi
exit $rc
