#!/bin/bash
# thorough tier:
#  1. every obligation of the property with 60 s limits, all three back ends must agree;
#  2. (report only) the scenario drivers of the property - replays of the defects found so far -
#     run against the real code of /repo through go test -overlay;
#  3. (report only) the must-fail corpus of the property on scratch copies of /repo;
#  4. (report only) a sample of automatically generated mutants of the property's functions
#     (selftest/mutants.sh; the sample is chosen by VERIF_SEED) on scratch copies.
# Only step 1 decides the exit code.
set -u
cd "$(dirname "$0")"
PROP="$1"
bin/sonicvc check --property "$PROP" --tier thorough
rc=$?
nn=$(echo "$PROP" | tr 'C' 'c')
pkgdir() { case "$1" in sonic) echo . ;; websocket) echo codec/websocket ;; ipv4) echo net/ipv4 ;; multicast) echo multicast ;; frame) echo codec/frame ;; *) echo . ;; esac; }
for f in scenarios/${nn}_*_test.go scenarios/${nn}m_*_test.go; do
  [ -f "$f" ] || continue
  case "$f" in *helper_test.go) continue ;; esac
  pk=$(grep -m1 '^package' "$f" | awk '{print $2}')
  res=$(./run_scenario.sh "$f" "$(pkgdir $pk)" 2>&1 | grep -E "^(--- |ok|FAIL|PASS)" | head -3 | tr '\n' ' ')
  echo "scenario $f: $res"
done
if [ -x selftest/run.sh ] && ls seeded | grep -q "^$PROP-"; then
  echo "must-fail corpus for $PROP (on scratch copies of /repo):"
  selftest/run.sh "$PROP" | sed 's/^/  /' || true
fi
if [ -x selftest/mutants.sh ]; then
  selftest/mutants.sh "$PROP" "${VERIF_MUTANTS:-10}" "${VERIF_SEED:-1}" || true
fi
exit $rc
