package main

// Contract expression language: Go expression syntax plus  a ==> b,  c ? a : b,
// forall i :: body,  old(e),  result.  Parsed by a small precedence-climbing parser.

import (
	"fmt"
	"math/big"
	"strings"
	"unicode"
)

type SKind int

const (
	SIdent SKind = iota
	SNum
	SStr
	SUnary
	SBinary
	SImp
	SCond
	SForall
	SSel
	SIndex
	SSlice
	SCall
)

type SExpr struct {
	Kind SKind
	Op   string
	Name string
	Args []*SExpr // SSlice: x, lo, hi (lo/hi may be nil); SCall: fun, args...
	Num  *big.Int
	Vars []string
}

func (s *SExpr) String() string {
	if s == nil {
		return ""
	}
	switch s.Kind {
	case SIdent:
		return s.Name
	case SNum:
		return s.Num.String()
	case SStr:
		return fmt.Sprintf("%q", s.Name)
	case SUnary:
		return s.Op + s.Args[0].String()
	case SBinary:
		return "(" + s.Args[0].String() + " " + s.Op + " " + s.Args[1].String() + ")"
	case SImp:
		return "(" + s.Args[0].String() + " ==> " + s.Args[1].String() + ")"
	case SCond:
		return "(" + s.Args[0].String() + " ? " + s.Args[1].String() + " : " + s.Args[2].String() + ")"
	case SForall:
		return "(forall " + strings.Join(s.Vars, ", ") + " :: " + s.Args[0].String() + ")"
	case SSel:
		return s.Args[0].String() + "." + s.Name
	case SIndex:
		return s.Args[0].String() + "[" + s.Args[1].String() + "]"
	case SSlice:
		return s.Args[0].String() + "[" + s.Args[1].String() + ":" + s.Args[2].String() + "]"
	case SCall:
		var as []string
		for _, a := range s.Args[1:] {
			as = append(as, a.String())
		}
		return s.Args[0].String() + "(" + strings.Join(as, ", ") + ")"
	}
	return "?"
}

type tok struct {
	kind string // id num str op eof
	text string
}

func lexSpec(src string) ([]tok, error) {
	var out []tok
	i := 0
	ops := []string{"==>", "&^", "<<", ">>", "==", "!=", "<=", ">=", "&&", "||", "::",
		"+", "-", "*", "/", "%", "&", "|", "^", "<", ">", "!", "(", ")", "[", "]", ".", ",", ":", "?"}
	for i < len(src) {
		c := rune(src[i])
		if unicode.IsSpace(c) {
			i++
			continue
		}
		if unicode.IsLetter(c) || c == '_' {
			j := i
			for j < len(src) && (unicode.IsLetter(rune(src[j])) || unicode.IsDigit(rune(src[j])) || src[j] == '_' || src[j] == '$') {
				j++
			}
			out = append(out, tok{"id", src[i:j]})
			i = j
			continue
		}
		if unicode.IsDigit(c) {
			j := i
			for j < len(src) && (unicode.IsDigit(rune(src[j])) || unicode.IsLetter(rune(src[j])) || src[j] == '_') {
				j++
			}
			out = append(out, tok{"num", src[i:j]})
			i = j
			continue
		}
		if c == '"' {
			j := i + 1
			for j < len(src) && src[j] != '"' {
				j++
			}
			if j >= len(src) {
				return nil, fmt.Errorf("unterminated string")
			}
			out = append(out, tok{"str", src[i+1 : j]})
			i = j + 1
			continue
		}
		matched := false
		for _, o := range ops {
			if strings.HasPrefix(src[i:], o) {
				out = append(out, tok{"op", o})
				i += len(o)
				matched = true
				break
			}
		}
		if !matched {
			return nil, fmt.Errorf("unexpected character %q in %q", c, src)
		}
	}
	out = append(out, tok{"eof", ""})
	return out, nil
}

type specParser struct {
	toks []tok
	pos  int
	src  string
}

func ParseSpec(src string) (e *SExpr, err error) {
	toks, err := lexSpec(src)
	if err != nil {
		return nil, err
	}
	p := &specParser{toks: toks, src: src}
	defer func() {
		if r := recover(); r != nil {
			if s, ok := r.(specErr); ok {
				err = fmt.Errorf("%s in %q", string(s), src)
				return
			}
			panic(r)
		}
	}()
	e = p.expr()
	if p.peek().kind != "eof" {
		p.fail("trailing tokens at %q", p.peek().text)
	}
	return e, nil
}

type specErr string

func (p *specParser) fail(f string, a ...interface{}) { panic(specErr(fmt.Sprintf(f, a...))) }
func (p *specParser) peek() tok                       { return p.toks[p.pos] }
func (p *specParser) next() tok                       { t := p.toks[p.pos]; p.pos++; return t }
func (p *specParser) isOp(s string) bool {
	t := p.peek()
	return t.kind == "op" && t.text == s
}
func (p *specParser) expect(s string) {
	if !p.isOp(s) {
		p.fail("expected %q, found %q", s, p.peek().text)
	}
	p.pos++
}

func (p *specParser) expr() *SExpr {
	if t := p.peek(); t.kind == "id" && t.text == "forall" {
		p.pos++
		var vars []string
		for {
			v := p.next()
			if v.kind != "id" {
				p.fail("forall: expected variable")
			}
			vars = append(vars, v.text)
			if p.isOp(",") {
				p.pos++
				continue
			}
			break
		}
		p.expect("::")
		body := p.expr()
		return &SExpr{Kind: SForall, Vars: vars, Args: []*SExpr{body}}
	}
	c := p.imp()
	if p.isOp("?") {
		p.pos++
		a := p.expr()
		p.expect(":")
		b := p.expr()
		return &SExpr{Kind: SCond, Args: []*SExpr{c, a, b}}
	}
	return c
}

func (p *specParser) imp() *SExpr {
	a := p.binary(1)
	if p.isOp("==>") {
		p.pos++
		var b *SExpr
		if t := p.peek(); t.kind == "id" && t.text == "forall" {
			b = p.expr()
		} else {
			b = p.imp()
		}
		return &SExpr{Kind: SImp, Args: []*SExpr{a, b}}
	}
	return a
}

var binPrec = map[string]int{
	"||": 1, "&&": 2,
	"==": 3, "!=": 3, "<": 3, "<=": 3, ">": 3, ">=": 3,
	"+": 4, "-": 4, "|": 4, "^": 4,
	"*": 5, "/": 5, "%": 5, "<<": 5, ">>": 5, "&": 5, "&^": 5,
}

func (p *specParser) binary(minPrec int) *SExpr {
	lhs := p.unary()
	for {
		t := p.peek()
		if t.kind != "op" {
			return lhs
		}
		pr, ok := binPrec[t.text]
		if !ok || pr < minPrec {
			return lhs
		}
		p.pos++
		rhs := p.binary(pr + 1)
		lhs = &SExpr{Kind: SBinary, Op: t.text, Args: []*SExpr{lhs, rhs}}
	}
}

func (p *specParser) unary() *SExpr {
	t := p.peek()
	if t.kind == "op" && (t.text == "!" || t.text == "-" || t.text == "^" || t.text == "&" || t.text == "*") {
		p.pos++
		x := p.unary()
		return &SExpr{Kind: SUnary, Op: t.text, Args: []*SExpr{x}}
	}
	return p.postfix()
}

func (p *specParser) postfix() *SExpr {
	x := p.primary()
	for {
		switch {
		case p.isOp("."):
			p.pos++
			t := p.next()
			if t.kind != "id" {
				p.fail("expected field name after '.'")
			}
			x = &SExpr{Kind: SSel, Name: t.text, Args: []*SExpr{x}}
		case p.isOp("["):
			p.pos++
			var lo, hi *SExpr
			if p.isOp(":") {
				p.pos++
				if !p.isOp("]") {
					hi = p.expr()
				}
				p.expect("]")
				x = &SExpr{Kind: SSlice, Args: []*SExpr{x, nil, hi}}
				continue
			}
			lo = p.expr()
			if p.isOp(":") {
				p.pos++
				if !p.isOp("]") {
					hi = p.expr()
				}
				p.expect("]")
				x = &SExpr{Kind: SSlice, Args: []*SExpr{x, lo, hi}}
				continue
			}
			p.expect("]")
			x = &SExpr{Kind: SIndex, Args: []*SExpr{x, lo}}
		case p.isOp("("):
			p.pos++
			args := []*SExpr{x}
			for !p.isOp(")") {
				args = append(args, p.expr())
				if p.isOp(",") {
					p.pos++
				}
			}
			p.expect(")")
			x = &SExpr{Kind: SCall, Args: args}
		default:
			return x
		}
	}
}

func (p *specParser) primary() *SExpr {
	t := p.next()
	switch t.kind {
	case "id":
		return &SExpr{Kind: SIdent, Name: t.text}
	case "num":
		n := new(big.Int)
		txt := strings.ReplaceAll(t.text, "_", "")
		if _, ok := n.SetString(txt, 0); !ok {
			p.fail("bad number %q", t.text)
		}
		return &SExpr{Kind: SNum, Num: n}
	case "str":
		return &SExpr{Kind: SStr, Name: t.text}
	case "op":
		if t.text == "(" {
			e := p.expr()
			p.expect(")")
			return e
		}
	}
	p.fail("unexpected token %q", t.text)
	return nil
}
