package main

import (
	"fmt"
	"go/types"
	"strings"

	"golang.org/x/tools/go/ssa"
)

// Symbolic values -----------------------------------------------------------------

type Value interface{}

type Scalar struct{ T *Term } // integers, bools, maps, chans, floats (opaque), unsafe pointers

type SliceV struct {
	Ptr, Len, Cap *Term
	Elem          types.Type
}

type StringV struct{ ID, Len *Term }

type StructV struct {
	T      types.Type
	Fields []Value
}

type ArrayV struct {
	Elem  types.Type
	Elems []Value
}

type TupleV []Value

type IfaceV struct {
	ID   *Term
	Dyn  Value      // statically known dynamic value (may be nil)
	DynT types.Type // its type
	T    types.Type // static interface type, when known
}

type FuncV struct {
	ID       *Term
	Static   *ssa.Function
	Bindings []Value
	Recv     Value // bound method receiver (for method values), may be nil
}

type ptrKind int

const (
	pObj  ptrKind = iota // pointer to a struct object in the heap; Addr = object reference
	pLoc                 // pointer to a leaf location: Mem family Key at Addr
	pArr                 // pointer to an array: elements in family Key at Addr+i
	pElem                // pointer to a struct that lives in element memory (family prefix Key) at Addr
)

type PtrV struct {
	Kind ptrKind
	Key  string
	Addr *Term
	T    types.Type // pointee type
	// FirstClass: Addr alone identifies the pointer given its static type
	FirstClass bool
}

// Type helpers --------------------------------------------------------------------

func under(t types.Type) types.Type { return t.Underlying() }

func sortOfBasic(b *types.Basic) *Sort {
	switch b.Kind() {
	case types.Bool, types.UntypedBool:
		return BoolSort
	case types.Int, types.Int64, types.UntypedInt, types.UntypedRune:
		return IntSort(64, true)
	case types.Int8:
		return IntSort(8, true)
	case types.Int16:
		return IntSort(16, true)
	case types.Int32:
		return IntSort(32, true)
	case types.Uint, types.Uint64, types.Uintptr:
		return IntSort(64, false)
	case types.Uint8:
		return IntSort(8, false)
	case types.Uint16:
		return IntSort(16, false)
	case types.Uint32:
		return IntSort(32, false)
	case types.UnsafePointer:
		return Ref
	case types.Float32, types.Float64, types.UntypedFloat, types.Complex64, types.Complex128:
		return Ref // opaque
	}
	return nil
}

func isIntType(t types.Type) bool {
	b, ok := under(t).(*types.Basic)
	return ok && b.Info()&types.IsInteger != 0
}

// typeName gives a stable short name for a type, used in Mem family keys.
func typeName(t types.Type) string {
	s := types.TypeString(t, func(p *types.Package) string {
		return strings.TrimPrefix(strings.TrimPrefix(p.Path(), modPath+"/"), modPath)
	})
	return strings.TrimPrefix(s, ".")
}

func structOf(t types.Type) (*types.Struct, bool) {
	s, ok := under(t).(*types.Struct)
	return s, ok
}

// leafSort: sort of a leaf component type; ok=false when t is not a single leaf.
func leafSort(t types.Type) (*Sort, bool) {
	switch u := under(t).(type) {
	case *types.Basic:
		if u.Info()&types.IsString != 0 {
			return nil, false
		}
		s := sortOfBasic(u)
		return s, s != nil
	case *types.Pointer, *types.Map, *types.Chan, *types.Signature, *types.Interface:
		return Ref, true
	}
	return nil, false
}

// State ---------------------------------------------------------------------------

type State struct {
	pc       *Term
	mems     map[string]*Mem
	baseTag  string
	baseSel  *baseSel          // when states with different base tags were merged: which base applies
	famTags  map[string]famTag // families havocked as a whole since the last global havoc
	allocTop *Term             // element memories: next free address
	refTop   *Term             // object references: next free reference
	ghost    map[string]*Term
	dead     bool
}

// baseSel records, for families not materialised when states were merged, which initial
// (or post-havoc) memory each path saw.
type baseSel struct {
	tag  string
	fam  map[string]famTag
	cond *Term
	a, b *baseSel
}

type famTag struct {
	tag  string
	sort *Sort
}

func (s *State) clone() *State {
	n := &State{pc: s.pc, mems: make(map[string]*Mem, len(s.mems)), baseTag: s.baseTag, baseSel: s.baseSel, famTags: make(map[string]famTag, len(s.famTags)), allocTop: s.allocTop, refTop: s.refTop, ghost: make(map[string]*Term, len(s.ghost)), dead: s.dead}
	for k, v := range s.mems {
		n.mems[k] = v
	}
	for k, v := range s.ghost {
		n.ghost[k] = v
	}
	for k, v := range s.famTags {
		n.famTags[k] = v
	}
	return n
}

// VCtx: everything shared by one function verification.
type VCtx struct {
	mc         *MemCtx
	bases      map[string]*Mem
	hyps       []*Term
	reads      map[string][]*Term // family -> addresses read
	readSet    map[string]map[int]bool
	qhyps      []*QHyp
	obls       []*Obligation
	notes      []string
	assumes    map[string]int // named assumptions used (trusted specs, relies) -> count
	curFam     string
	insts      []qinst
	seq        int
	instRounds int
	capture    *[]*Term // when set, assumptions are collected here instead of the timeline
}

type qtrig struct {
	family string                 // memory family whose reads trigger instantiation
	solve  func(addr *Term) *Term // value of the bound variable for an address read
	base   *Term                  // base pointer of the array in the pattern (nil: any address)
}

// QHyp: an assumed universal fact over one or two integer variables, instantiated by
// E-matching on address reads.
type QHyp struct {
	at    int // index in hyps timeline
	idx   int
	nvars int
	trigs [][]qtrig // per variable
	body  func(js []*Term) *Term
	cache map[string]*Term
	desc  string
	pc    *Term // path condition under which the hypothesis was assumed
}

type Obligation struct {
	Name   string
	Kind   string
	Props  []string
	Clause string
	Goal   *Term
	PC     *Term
	NHyps  int
	Fn     string
	Pos    string
	// explicit hypothesis sets (path replay): replace hyps[:NHyps] / qhyps[:NQ]
	HypsX  []*Term
	QHypsX []*QHyp
	// filled by the solver stage
	FocusFiles   []string
	Wall         float64 // wall time of all solver stages
	anteFile     string
	lazyFull     func()
	lazyAnte     func()
	lazySmall    func()
	Result       string
	Backend      string
	Secs         float64
	Model        map[string]string
	NQ           int
	Seq          int
	Output       string
	QueryFile    string
	Known        *KnownFinding
	SmallFile    string
	FullFile     string
	AbstractFile string
	fullNames    []string
	valNames     []string
	bv           bool
}

func newVCtx() *VCtx {
	c := &VCtx{bases: map[string]*Mem{}, reads: map[string][]*Term{}, readSet: map[string]map[int]bool{}, assumes: map[string]int{}}
	c.mc = &MemCtx{cache: map[readKey]*Term{}, symFam: map[string]string{}}
	c.mc.onRead = c.logRead
	return c
}

func (c *VCtx) assume(t *Term) {
	if t.IsTrue() {
		return
	}
	if c.capture != nil {
		*c.capture = append(*c.capture, t)
		return
	}
	c.hyps = append(c.hyps, t)
}

func (c *VCtx) logRead(family string, addr *Term) {
	m := c.readSet[family]
	if m == nil {
		m = map[int]bool{}
		c.readSet[family] = m
	}
	if !m[addr.id] {
		m[addr.id] = true
		c.reads[family] = append(c.reads[family], addr)
	}
}

// family returns the Mem tree for a family key in state s, creating the base lazily.
func (c *VCtx) family(s *State, key string, sort *Sort) *Mem {
	if m, ok := s.mems[key]; ok {
		if m.sort != sort {
			panic(fmt.Sprintf("family %s sort mismatch %s vs %s", key, m.sort, sort))
		}
		return m
	}
	var m *Mem
	if s.baseSel != nil {
		m = c.baseOf(s.baseSel, key, sort)
	} else {
		tag := s.baseTag
		if ft, ok := s.famTags[key]; ok {
			tag = ft.tag
		}
		m = c.baseNamed(key, tag, sort)
	}
	s.mems[key] = m
	return m
}

func (c *VCtx) baseNamed(key, tag string, sort *Sort) *Mem {
	bk := key + "@" + tag
	m, ok := c.bases[bk]
	if !ok {
		m = MemBase(bk, sort)
		m.fam = key
		c.bases[bk] = m
	}
	return m
}

func (c *VCtx) baseOf(b *baseSel, key string, sort *Sort) *Mem {
	if b.cond == nil {
		tag := b.tag
		if ft, ok := b.fam[key]; ok {
			tag = ft.tag
		}
		return c.baseNamed(key, tag, sort)
	}
	return MemIte(b.cond, c.baseOf(b.a, key, sort), c.baseOf(b.b, key, sort))
}

func (s *State) sel() *baseSel {
	if s.baseSel != nil {
		return s.baseSel
	}
	fam := make(map[string]famTag, len(s.famTags))
	for k, v := range s.famTags {
		fam[k] = v
	}
	return &baseSel{tag: s.baseTag, fam: fam}
}

func sameSel(a, b *State) bool {
	if a.baseSel != nil || b.baseSel != nil {
		return a.baseSel == b.baseSel
	}
	if a.baseTag != b.baseTag || len(a.famTags) != len(b.famTags) {
		return false
	}
	for k, v := range a.famTags {
		if w, ok := b.famTags[k]; !ok || w.tag != v.tag {
			return false
		}
	}
	return true
}

func (c *VCtx) read(s *State, key string, sort *Sort, addr *Term) *Term {
	return c.mc.Read(c.family(s, key, sort), addr)
}

func (c *VCtx) write(s *State, key string, addr, val *Term) {
	m := c.family(s, key, val.Sort)
	s.mems[key] = m.Store(addr, val)
}

// havocAll forgets every heap and memory family (call-out to unknown code).
func (c *VCtx) havocAll(s *State, why string) {
	freshCounter++
	s.mems = map[string]*Mem{}
	s.famTags = map[string]famTag{}
	s.baseSel = nil
	s.baseTag = fmt.Sprintf("h%d", freshCounter)
	// unknown code may allocate
	nt := Fresh("allocTop", Ref)
	c.assume(Le(s.allocTop, nt))
	s.allocTop = nt
	nr := Fresh("refTop", Ref)
	c.assume(Le(s.refTop, nr))
	s.refTop = nr
}

// havocFamily forgets one whole family.
func (c *VCtx) havocFamily(s *State, key string, sort *Sort) {
	freshCounter++
	if s.baseSel != nil {
		// the state is a merge: give the family a fresh base directly
		s.mems[key] = c.baseNamed(key, fmt.Sprintf("f%d", freshCounter), sort)
		return
	}
	delete(s.mems, key)
	s.famTags[key] = famTag{fmt.Sprintf("f%d", freshCounter), sort}
}

// mergeStates builds the state at a join from (edge condition, state) pairs.
func (c *VCtx) mergeStates(edges []*State) *State {
	var live []*State
	for _, e := range edges {
		if !e.pc.IsFalse() {
			live = append(live, e)
		}
	}
	if len(live) == 0 {
		s := edges[0].clone()
		s.pc = False
		return s
	}
	if len(live) == 1 {
		return live[0].clone()
	}
	out := live[len(live)-1].clone()
	var pcs []*Term
	for _, l := range live {
		pcs = append(pcs, l.pc)
	}
	rel := relConds(pcs)
	for i := len(live) - 2; i >= 0; i-- {
		e := live[i]
		sel := rel[i]
		keys := map[string]bool{}
		for k := range e.mems {
			keys[k] = true
		}
		for k := range out.mems {
			keys[k] = true
		}
		sorts := map[string]*Sort{}
		for k, ft := range e.famTags {
			keys[k] = true
			sorts[k] = ft.sort
		}
		for k, ft := range out.famTags {
			keys[k] = true
			sorts[k] = ft.sort
		}
		nm := map[string]*Mem{}
		for _, k := range sortedKeys(keys) {
			var srt *Sort
			if m, ok := e.mems[k]; ok {
				srt = m.sort
			} else if m, ok := out.mems[k]; ok {
				srt = m.sort
			} else {
				srt = sorts[k]
			}
			a := c.family(e, k, srt)
			b := c.family(out, k, srt)
			nm[k] = MemIte(sel, a, b)
		}
		out.mems = nm
		if !sameSel(e, out) {
			// families not materialised on either side keep, per path, the base that path saw
			out.baseSel = &baseSel{cond: sel, a: e.sel(), b: out.sel()}
			out.famTags = map[string]famTag{}
		}
		out.allocTop = Ite(sel, e.allocTop, out.allocTop)
		out.refTop = Ite(sel, e.refTop, out.refTop)
		g := map[string]*Term{}
		for k, v := range out.ghost {
			g[k] = v
		}
		for _, k := range sortedKeys(e.ghost) {
			v := e.ghost[k]
			if w, ok := out.ghost[k]; ok {
				g[k] = Ite(sel, v, w)
			} else {
				g[k] = v
			}
		}
		out.ghost = g
		out.pc = Or(e.pc, out.pc)
	}
	return out
}

// Shapes --------------------------------------------------------------------------

// fieldKey is the Mem family of field i of struct type t (a named type).
func fieldKey(t types.Type, i int) string {
	st, _ := structOf(t)
	return typeName(t) + "." + st.Field(i).Name()
}

func (e *Exec) errorf(format string, args ...interface{}) {
	panic(unsupported{fmt.Sprintf(format, args...)})
}

type unsupported struct{ msg string }

// zeroValue of a type.
func (e *Exec) zeroValue(t types.Type) Value {
	switch u := under(t).(type) {
	case *types.Basic:
		if u.Info()&types.IsString != 0 {
			return StringV{ID: ConstI(0, Ref), Len: ConstI(0, I64)}
		}
		s := sortOfBasic(u)
		if s == nil {
			e.errorf("zero of %s", t)
		}
		if s.Kind == SBool {
			return Scalar{False}
		}
		return Scalar{ConstI(0, s)}
	case *types.Pointer:
		return e.ptrFromTerm(ConstI(0, Ref), u.Elem())
	case *types.Map, *types.Chan:
		return Scalar{ConstI(0, Ref)}
	case *types.Signature:
		return FuncV{ID: ConstI(0, Ref)}
	case *types.Interface:
		return IfaceV{ID: ConstI(0, Ref)}
	case *types.Slice:
		return SliceV{Ptr: ConstI(0, Ref), Len: ConstI(0, I64), Cap: ConstI(0, I64), Elem: u.Elem()}
	case *types.Struct:
		sv := StructV{T: t}
		for i := 0; i < u.NumFields(); i++ {
			sv.Fields = append(sv.Fields, e.zeroValue(u.Field(i).Type()))
		}
		return sv
	case *types.Array:
		if u.Len() > 64 {
			e.errorf("array value of length %d", u.Len())
		}
		av := ArrayV{Elem: u.Elem()}
		for i := int64(0); i < u.Len(); i++ {
			av.Elems = append(av.Elems, e.zeroValue(u.Elem()))
		}
		return av
	case *types.Tuple:
		var tv TupleV
		for i := 0; i < u.Len(); i++ {
			tv = append(tv, e.zeroValue(u.At(i).Type()))
		}
		return tv
	}
	e.errorf("zero of %s", t)
	return nil
}

// freshValue: unconstrained value of type t (with well-formedness facts assumed).
func (e *Exec) freshValue(name string, t types.Type, st *State) Value {
	switch u := under(t).(type) {
	case *types.Basic:
		if u.Info()&types.IsString != 0 {
			l := Fresh(name+".len", I64)
			e.ctx.assume(Le(ConstI(0, I64), l))
			return StringV{ID: Fresh(name+".str", Ref), Len: l}
		}
		s := sortOfBasic(u)
		if s == nil {
			e.errorf("fresh of %s", t)
		}
		return Scalar{Fresh(name, s)}
	case *types.Pointer:
		r := Fresh(name, Ref)
		e.assumeRefWF(r, st)
		return e.ptrFromTerm(r, u.Elem())
	case *types.Map, *types.Chan:
		return Scalar{Fresh(name, Ref)}
	case *types.Signature:
		return FuncV{ID: Fresh(name, Ref)}
	case *types.Interface:
		return IfaceV{ID: Fresh(name, Ref), T: t}
	case *types.Slice:
		sv := SliceV{Ptr: Fresh(name+".ptr", Ref), Len: Fresh(name+".len", I64), Cap: Fresh(name+".cap", I64), Elem: u.Elem()}
		e.assumeSliceWF(sv, st)
		return sv
	case *types.Struct:
		sv := StructV{T: t}
		for i := 0; i < u.NumFields(); i++ {
			sv.Fields = append(sv.Fields, e.freshValue(name+"."+u.Field(i).Name(), u.Field(i).Type(), st))
		}
		return sv
	case *types.Array:
		if u.Len() > 64 {
			e.errorf("array value of length %d", u.Len())
		}
		av := ArrayV{Elem: u.Elem()}
		for i := int64(0); i < u.Len(); i++ {
			av.Elems = append(av.Elems, e.freshValue(fmt.Sprintf("%s[%d]", name, i), u.Elem(), st))
		}
		return av
	case *types.Tuple:
		var tv TupleV
		for i := 0; i < u.Len(); i++ {
			tv = append(tv, e.freshValue(fmt.Sprintf("%s#%d", name, i), u.At(i).Type(), st))
		}
		return tv
	}
	e.errorf("fresh of %s", t)
	return nil
}

const maxAddr = int64(1) << 47

// array-typed struct fields live in a "static" area above every dynamic allocation
const staticBase = int64(1) << 48

// slices known to the program are well formed and lie below the allocation frontier.
func (e *Exec) assumeSliceWF(s SliceV, st *State) {
	z := ConstI(0, I64)
	e.ctx.assume(And(Le(z, s.Len), Le(s.Len, s.Cap), Le(s.Cap, ConstI(maxAddr, I64)),
		Le(z, s.Ptr), Le(s.Ptr, ConstI(staticBase*4, Ref)), Or(Le(AddNW(s.Ptr, s.Cap), st.allocTop), Le(ConstI(staticBase, Ref), s.Ptr)),
		Le(AddNW(s.Ptr, s.Cap), ConstI(e.staticLimit(st), Ref)),
		Imp(Eq(s.Ptr, z), Eq(s.Cap, z))))
}

// while no object has been allocated since entry, every array field belongs to an old object
func (e *Exec) staticLimit(st *State) int64 {
	if e.entry != nil && st.refTop == e.entry.refTop {
		return staticBase * 2
	}
	return staticBase * 4
}

func (e *Exec) assumeRefWF(r *Term, st *State) {
	e.ctx.assume(And(Le(ConstI(0, Ref), r), Lt(r, st.refTop)))
}

// ptrFromTerm interprets a reference term as a pointer to elem.
func (e *Exec) ptrFromTerm(r *Term, elem types.Type) PtrV {
	switch under(elem).(type) {
	case *types.Struct:
		return PtrV{Kind: pObj, Addr: r, T: elem, FirstClass: true}
	case *types.Array:
		au := under(elem).(*types.Array)
		return PtrV{Kind: pArr, Key: "elem:" + typeName(au.Elem()), Addr: r, T: elem, FirstClass: true}
	}
	return PtrV{Kind: pLoc, Key: "cell:" + typeName(elem), Addr: r, T: elem, FirstClass: true}
}

// scalarOf returns the term that represents v when it is stored in a leaf location.
func (e *Exec) scalarOf(v Value) *Term {
	switch x := v.(type) {
	case Scalar:
		return x.T
	case PtrV:
		if !x.FirstClass {
			e.errorf("pointer to %s (family %s) escapes; only pointers to objects and cells are first-class", x.T, x.Key)
		}
		return x.Addr
	case IfaceV:
		return x.ID
	case FuncV:
		return x.ID
	case UntypedInt:
		return Const(x.V, I64)
	case UntypedIte:
		return e.typedUntyped(x, I64)
	}
	e.errorf("scalarOf %T", v)
	return nil
}

// valueFromScalar rebuilds a Go-level value of leaf type t from its term.
func (e *Exec) valueFromScalar(t types.Type, x *Term) Value {
	switch u := under(t).(type) {
	case *types.Pointer:
		return e.ptrFromTerm(x, u.Elem())
	case *types.Signature:
		return FuncV{ID: x}
	case *types.Interface:
		return IfaceV{ID: x, T: t}
	}
	return Scalar{x}
}

// load a value of type t from the location described by (kind,key,addr).
func (e *Exec) loadAt(st *State, p PtrV) Value {
	t := p.T
	switch p.Kind {
	case pObj:
		su, _ := structOf(t)
		sv := StructV{T: t}
		for i := 0; i < su.NumFields(); i++ {
			sv.Fields = append(sv.Fields, e.loadAt(st, e.fieldAddr(p, i, st)))
		}
		return sv
	case pElem:
		su, _ := structOf(t)
		sv := StructV{T: t}
		for i := 0; i < su.NumFields(); i++ {
			sv.Fields = append(sv.Fields, e.loadAt(st, e.fieldAddr(p, i, st)))
		}
		return sv
	case pArr:
		au := under(t).(*types.Array)
		if au.Len() > 64 {
			e.errorf("load of array of length %d", au.Len())
		}
		av := ArrayV{Elem: au.Elem()}
		for i := int64(0); i < au.Len(); i++ {
			av.Elems = append(av.Elems, e.loadAt(st, e.elemPtr(p.Key, AddNW(p.Addr, ConstI(i, Ref)), au.Elem())))
		}
		return av
	}
	// leaf location
	switch u := under(t).(type) {
	case *types.Slice:
		sv := SliceV{
			Ptr:  e.ctx.read(st, p.Key+"#ptr", Ref, p.Addr),
			Len:  e.ctx.read(st, p.Key+"#len", I64, p.Addr),
			Cap:  e.ctx.read(st, p.Key+"#cap", I64, p.Addr),
			Elem: u.Elem(),
		}
		e.assumeSliceWF(sv, st)
		return sv
	case *types.Basic:
		if u.Info()&types.IsString != 0 {
			l := e.ctx.read(st, p.Key+"#len", I64, p.Addr)
			e.ctx.assume(Le(ConstI(0, I64), l))
			return StringV{ID: e.ctx.read(st, p.Key+"#id", Ref, p.Addr), Len: l}
		}
	}
	s, ok := leafSort(t)
	if !ok {
		e.errorf("load of type %s", t)
	}
	if strings.HasPrefix(p.Key, "global:") {
		if _, isIface := under(t).(*types.Interface); isIface {
			// package-level error values are never reassigned: each is a distinct non-nil constant
			e.ctx.assumes["package-level error variables are never reassigned"]++
			return IfaceV{ID: ConstI(e.globalConstID(p.Key), Ref)}
		}
	}
	x := e.ctx.read(st, p.Key, s, p.Addr)
	if pt, ok := under(t).(*types.Pointer); ok {
		_ = pt
		e.assumeRefWF(x, st)
	}
	return e.valueFromScalar(t, x)
}

func (e *Exec) storeAt(st *State, p PtrV, v Value) {
	t := p.T
	switch p.Kind {
	case pObj, pElem:
		sv, ok := v.(StructV)
		if !ok {
			e.errorf("store of %T into struct location", v)
		}
		for i := range sv.Fields {
			e.storeAt(st, e.fieldAddr(p, i, st), sv.Fields[i])
		}
		return
	case pArr:
		av, ok := v.(ArrayV)
		if !ok {
			e.errorf("store of %T into array location", v)
		}
		au := under(t).(*types.Array)
		for i := range av.Elems {
			e.storeAt(st, e.elemPtr(p.Key, AddNW(p.Addr, ConstI(int64(i), Ref)), au.Elem()), av.Elems[i])
		}
		return
	}
	switch x := v.(type) {
	case SliceV:
		e.ctx.write(st, p.Key+"#ptr", p.Addr, x.Ptr)
		e.ctx.write(st, p.Key+"#len", p.Addr, x.Len)
		e.ctx.write(st, p.Key+"#cap", p.Addr, x.Cap)
		return
	case StringV:
		e.ctx.write(st, p.Key+"#id", p.Addr, x.ID)
		e.ctx.write(st, p.Key+"#len", p.Addr, x.Len)
		return
	}
	e.ctx.write(st, p.Key, p.Addr, e.scalarOf(v))
}

// elemPtr: pointer to an element of type et in element family key at addr.
func (e *Exec) elemPtr(key string, addr *Term, et types.Type) PtrV {
	switch under(et).(type) {
	case *types.Struct:
		return PtrV{Kind: pElem, Key: key, Addr: addr, T: et}
	case *types.Array:
		e.errorf("array of arrays")
	}
	return PtrV{Kind: pLoc, Key: key, Addr: addr, T: et}
}

// fieldAddr: &p.f
func (e *Exec) fieldAddr(p PtrV, i int, st *State) PtrV {
	su, ok := structOf(p.T)
	if !ok {
		e.errorf("fieldAddr on non-struct %s", p.T)
	}
	ft := su.Field(i).Type()
	fname := su.Field(i).Name()
	switch p.Kind {
	case pObj:
		key := typeName(p.T) + "." + fname
		switch fu := under(ft).(type) {
		case *types.Struct:
			fa := App("fa:"+key, Ref, p.Addr)
			// injectivity, and freshness is inherited from the host object
			e.ctx.assume(Eq(App("fainv:"+key, Ref, fa), p.Addr))
			e.ctx.assume(Eq(App("fatag", Ref, fa), ConstI(e.tagOf(key), Ref)))
			// an embedded struct is as old as its host (relative to function entry)
			e.ctx.assume(Eq(Lt(fa, e.entry.refTop), Lt(p.Addr, e.entry.refTop)))
			e.ctx.assume(Imp(Lt(ConstI(0, Ref), p.Addr), Lt(ConstI(0, Ref), fa)))
			return PtrV{Kind: pObj, Addr: fa, T: ft, FirstClass: true}
		case *types.Array:
			base := App("arr:"+key, Ref, p.Addr)
			e.arrayBaseFacts(key, base, p.Addr, fu.Len())
			return PtrV{Kind: pArr, Key: "elem:" + typeName(fu.Elem()), Addr: base, T: ft, FirstClass: true}
		}
		return PtrV{Kind: pLoc, Key: key, Addr: p.Addr, T: ft}
	case pElem:
		key := p.Key + "." + fname
		switch under(ft).(type) {
		case *types.Struct:
			return PtrV{Kind: pElem, Key: key, Addr: p.Addr, T: ft}
		case *types.Array:
			// an array inside a slice element: its own region at an uninterpreted base
			fu := under(ft).(*types.Array)
			base := App("arrin:"+key, Ref, p.Addr)
			e.arrayBaseFacts("in:"+key, base, p.Addr, fu.Len())
			return PtrV{Kind: pArr, Key: "elem:" + typeName(fu.Elem()), Addr: base, T: ft, FirstClass: true}
		}
		return PtrV{Kind: pLoc, Key: key, Addr: p.Addr, T: ft}
	}
	e.errorf("fieldAddr on pointer kind %d", p.Kind)
	return PtrV{}
}

var globalIDs = map[string]int64{}

func (e *Exec) globalConstID(key string) int64 {
	if id, ok := globalIDs[key]; ok {
		return id
	}
	id := int64(1)<<52 + int64(len(globalIDs)+1)
	globalIDs[key] = id
	return id
}

var fieldTags = map[string]int64{}

func (e *Exec) tagOf(key string) int64 {
	if t, ok := fieldTags[key]; ok {
		return t
	}
	t := int64(len(fieldTags) + 1)
	fieldTags[key] = t
	return t
}

// array fields live in element memory at an uninterpreted base; distinct (field, object) pairs
// occupy disjoint regions.
func (e *Exec) arrayBaseFacts(key string, base, obj *Term, n int64) {
	for _, o := range e.arrBases {
		if o.base == base {
			return
		}
	}
	// arrays of objects that existed at entry live in [2^48,2^49), arrays of fresh objects above
	hi := AddNW(base, ConstI(n, Ref))
	e.ctx.assume(Ite(Lt(obj, e.entry.refTop),
		And(Le(ConstI(staticBase, Ref), base), Le(hi, ConstI(staticBase*2, Ref))),
		And(Le(ConstI(staticBase*2, Ref), base), Le(hi, ConstI(staticBase*4, Ref)))))
	for _, o := range e.arrBases {
		dis := Or(Le(AddNW(base, ConstI(n, Ref)), o.base), Le(AddNW(o.base, ConstI(o.n, Ref)), base))
		if o.key == key {
			e.ctx.assume(Or(Eq(obj, o.obj), dis))
		} else {
			e.ctx.assume(dis)
		}
	}
	e.arrBases = append(e.arrBases, arrBase{key, base, obj, n})
}

type arrBase struct {
	key       string
	base, obj *Term
	n         int64
}
