package main

import (
	"fmt"
	"go/types"
	"os"
	"sort"
	"strings"

	"golang.org/x/tools/go/packages"
	"golang.org/x/tools/go/ssa"
	"golang.org/x/tools/go/ssa/ssautil"
)

const modPath = "github.com/talostrading/sonic"

type Program struct {
	Repo  string
	Pkgs  []*packages.Package
	Prog  *ssa.Program
	SPkgs map[string]*ssa.Package  // by import path
	Funcs map[string]*ssa.Function // by key (see funcKey)
}

func goEnv() []string {
	// make sure the go command used for `go list` is the new toolchain (LookPath uses our own PATH)
	if !strings.HasPrefix(os.Getenv("PATH"), "/opt/veriftools/go1.26.8/bin:") {
		os.Setenv("PATH", "/opt/veriftools/go1.26.8/bin:"+os.Getenv("PATH"))
	}
	env := os.Environ()
	env = append(env, "GOFLAGS=-mod=mod", "GOPROXY=off", "GOSUMDB=off", "GOTOOLCHAIN=local", "CGO_ENABLED=0")
	return env
}

func LoadProgram(repo string) (*Program, error) {
	cfg := &packages.Config{
		Mode:       packages.LoadAllSyntax,
		Dir:        repo,
		BuildFlags: []string{"-tags=verif"},
		Env:        goEnv(),
	}
	pats := []string{".", "./internal", "./bytes", "./util", "./codec/frame", "./codec/websocket", "./multicast", "./net/ipv4", "./sonicerrors", "./sonicopts"}
	pkgs, err := packages.Load(cfg, pats...)
	if err != nil {
		return nil, err
	}
	var errs []string
	packages.Visit(pkgs, nil, func(p *packages.Package) {
		if strings.HasPrefix(p.PkgPath, modPath) {
			for _, e := range p.Errors {
				errs = append(errs, e.Error())
			}
		}
	})
	if len(errs) > 0 {
		return nil, fmt.Errorf("repository does not type-check:\n%s", strings.Join(errs, "\n"))
	}
	prog, _ := ssautil.AllPackages(pkgs, ssa.GlobalDebug|ssa.InstantiateGenerics)
	prog.Build()
	p := &Program{Repo: repo, Pkgs: pkgs, Prog: prog, SPkgs: map[string]*ssa.Package{}, Funcs: map[string]*ssa.Function{}}
	for _, sp := range prog.AllPackages() {
		p.SPkgs[sp.Pkg.Path()] = sp
	}
	for fn := range ssautil.AllFunctions(prog) {
		if fn.Pkg == nil && fn.Origin() == nil && fn.Parent() == nil {
			continue
		}
		p.Funcs[funcKey(fn)] = fn
	}
	return p, nil
}

// funcKey: "<pkgpath>.<Name>" for functions, "<pkgpath>.(*T).M" / "<pkgpath>.(T).M" for methods,
// "<outer>$n" for closures; generic instances keep their type arguments as printed by ssa.
func funcKey(fn *ssa.Function) string {
	if fn.Parent() != nil {
		return funcKey(fn.Parent()) + "$" + strings.TrimPrefix(fn.Name(), fn.Parent().Name()+"$")
	}
	s := fn.String() // e.g. (*github.com/talostrading/sonic.BipBuffer).Claim
	if strings.HasPrefix(s, "(") {
		// (*pkg.T).M  ->  pkg.(*T).M
		end := strings.Index(s, ")")
		recv := s[1:end]
		star := ""
		if strings.HasPrefix(recv, "*") {
			star = "*"
			recv = recv[1:]
		}
		// split pkg path and type name: last '.' before any '['
		br := strings.Index(recv, "[")
		head := recv
		tail := ""
		if br >= 0 {
			head, tail = recv[:br], recv[br:]
		}
		dot := strings.LastIndex(head, ".")
		if dot < 0 {
			return s
		}
		return head[:dot] + ".(" + star + head[dot+1:] + tail + ")" + s[end+1:]
	}
	return s
}

func shortKey(k string) string {
	return strings.TrimPrefix(strings.TrimPrefix(k, modPath+"/"), modPath+".")
}

func (p *Program) sortedFuncKeys() []string {
	var ks []string
	for k := range p.Funcs {
		ks = append(ks, k)
	}
	sort.Strings(ks)
	return ks
}

func isRepoFunc(fn *ssa.Function) bool {
	pk := fn.Pkg
	if pk == nil && fn.Origin() != nil {
		pk = fn.Origin().Pkg
	}
	for f := fn; pk == nil && f.Parent() != nil; f = f.Parent() {
		pk = f.Parent().Pkg
	}
	return pk != nil && strings.HasPrefix(pk.Pkg.Path(), modPath)
}

func pkgOf(fn *ssa.Function) *types.Package {
	for f := fn; f != nil; f = f.Parent() {
		if f.Pkg != nil {
			return f.Pkg.Pkg
		}
		if f.Origin() != nil && f.Origin().Pkg != nil {
			return f.Origin().Pkg.Pkg
		}
	}
	return nil
}

// stripTypeArgs removes instantiation brackets: (*CodecConn[[]byte, []byte]).X -> (*CodecConn).X
func stripTypeArgs(k string) string {
	var sb strings.Builder
	depth := 0
	for i := 0; i < len(k); i++ {
		c := k[i]
		if c == '[' {
			// a slice type "[]" directly inside brackets is part of the argument list; at depth 0
			// a '[' always starts a type-argument list in function keys
			depth++
			continue
		}
		if c == ']' {
			depth--
			continue
		}
		if depth == 0 {
			sb.WriteByte(c)
		}
	}
	return sb.String()
}
