package main

// Static write sets: which Mem families a function (transitively) may store to.
// Computed from the SSA, never trusted from an annotation.

import (
	"go/types"
	"sort"
	"strings"

	"golang.org/x/tools/go/ssa"
)

type WriteSet struct {
	Top      bool // may write anything (call-out to unknown code)
	Fams     map[string]*Sort
	AllocArr bool // allocates objects that contain array fields
}

func newWS() *WriteSet { return &WriteSet{Fams: map[string]*Sort{}} }

func (w *WriteSet) add(o *WriteSet) {
	if o.Top {
		w.Top = true
	}
	if o.AllocArr {
		w.AllocArr = true
	}
	for k, s := range o.Fams {
		w.Fams[k] = s
	}
}

func (w *WriteSet) keys() []string {
	var ks []string
	for k := range w.Fams {
		ks = append(ks, k)
	}
	sort.Strings(ks)
	return ks
}

type effects struct {
	P     *Program
	C     *Contracts
	memo  map[*ssa.Function]*WriteSet
	inprg map[*ssa.Function]bool
	e     *Exec // for leafFamilies helpers
}

var benignExternal = []string{"syscall.", "golang.org/x/sys/unix.", "fmt.", "errors.", "strconv.", "time.", "strings.", "os.", "math.", "math/bits.", "unicode/utf8.", "runtime.", "log.", "encoding/base64.", "crypto/sha1.", "net.", "net/http.", "net/url.", "bufio.", "sync.", "sync/atomic.", "reflect.", "sort.", "bytes.", "io.", "crypto/"}

func isBenignExternal(key string) bool {
	k := strings.TrimPrefix(key, "(")
	k = strings.TrimPrefix(k, "*")
	for _, p := range benignExternal {
		if strings.HasPrefix(k, p) || strings.HasPrefix(key, p) {
			return true
		}
	}
	return false
}

// heapLeafFamilies: leaf families of a heap object of struct type t.
func heapLeafFamilies(e *Exec, t types.Type) []leafFam {
	su, ok := structOf(t)
	if !ok {
		return e.leafFamilies(t, "cell:"+typeName(t))
	}
	var out []leafFam
	for i := 0; i < su.NumFields(); i++ {
		ft := su.Field(i).Type()
		switch fu := under(ft).(type) {
		case *types.Struct:
			out = append(out, heapLeafFamilies(e, ft)...)
		case *types.Array:
			out = append(out, e.leafFamilies(fu.Elem(), "elem:"+typeName(fu.Elem()))...)
		default:
			out = append(out, e.leafFamilies(ft, typeName(t)+"."+su.Field(i).Name())...)
		}
	}
	return out
}

// staticLoc describes where an address value points, as far as the SSA tells.
type staticLoc struct {
	prefix string     // family prefix for leaf pointees / elem structs
	t      types.Type // pointee type
	heap   bool       // pointee is a heap object (struct) addressed by reference
}

func (fx *effects) locOf(v ssa.Value) staticLoc {
	pt, ok := under(v.Type()).(*types.Pointer)
	if !ok {
		return staticLoc{}
	}
	elem := pt.Elem()
	switch x := v.(type) {
	case *ssa.FieldAddr:
		host := fx.locOf(x.X)
		su, _ := structOf(host.t)
		if su == nil {
			break
		}
		f := su.Field(x.Field)
		if host.heap {
			switch fu := under(f.Type()).(type) {
			case *types.Struct:
				return staticLoc{t: f.Type(), heap: true}
			case *types.Array:
				return staticLoc{prefix: "elem:" + typeName(fu.Elem()), t: f.Type()}
			}
			return staticLoc{prefix: typeName(host.t) + "." + f.Name(), t: f.Type()}
		}
		return staticLoc{prefix: host.prefix + "." + f.Name(), t: f.Type()}
	case *ssa.IndexAddr:
		switch xu := under(x.X.Type()).(type) {
		case *types.Slice:
			return staticLoc{prefix: "elem:" + typeName(xu.Elem()), t: xu.Elem()}
		case *types.Pointer:
			if au, ok := under(xu.Elem()).(*types.Array); ok {
				// the array itself may be a field of a struct in element memory; keep it simple
				return staticLoc{prefix: "elem:" + typeName(au.Elem()), t: au.Elem()}
			}
		}
	}
	switch eu := under(elem).(type) {
	case *types.Struct:
		return staticLoc{t: elem, heap: true}
	case *types.Array:
		return staticLoc{prefix: "elem:" + typeName(eu.Elem()), t: elem}
	}
	if g, ok := v.(*ssa.Global); ok {
		return staticLoc{prefix: "global:" + g.Pkg.Pkg.Path() + "." + g.Name(), t: elem}
	}
	return staticLoc{prefix: "cell:" + typeName(elem), t: elem}
}

func (fx *effects) famsOfLoc(l staticLoc) []leafFam {
	if l.t == nil {
		return nil
	}
	if l.heap {
		return heapLeafFamilies(fx.e, l.t)
	}
	if au, ok := under(l.t).(*types.Array); ok {
		return fx.e.leafFamilies(au.Elem(), l.prefix)
	}
	return fx.e.leafFamilies(l.t, l.prefix)
}

func (fx *effects) elemFams(t types.Type) []leafFam {
	switch u := under(t).(type) {
	case *types.Slice:
		return fx.e.leafFamilies(u.Elem(), "elem:"+typeName(u.Elem()))
	}
	return nil
}

func (fx *effects) of(fn *ssa.Function) *WriteSet {
	if w, ok := fx.memo[fn]; ok {
		return w
	}
	if fx.inprg[fn] {
		w := newWS()
		w.Top = true // recursion: be conservative
		return w
	}
	fx.inprg[fn] = true
	w := newWS()
	defer func() {
		delete(fx.inprg, fn)
		fx.memo[fn] = w
	}()
	if fc := fx.C.lookup(funcKey(fn)); fc != nil {
		for _, g := range fc.Ghosts {
			w.Fams["ghost:"+g.Map] = I64
		}
		// a ghost map named in the modifies clause (e.g. the descriptor table written by close(2))
		for _, m := range fc.Modifies {
			if m.Kind == SIdent && fx.C.GhostMaps[m.Name] {
				w.Fams["ghost:"+m.Name] = I64
			}
		}
	}
	if fn.Blocks == nil {
		w.add(fx.external(fn, nil))
		return w
	}
	for _, b := range fn.Blocks {
		for _, ins := range b.Instrs {
			w.add(fx.ofInstr(ins))
		}
	}
	return w
}

func (fx *effects) ofInstr(ins ssa.Instruction) *WriteSet {
	w := newWS()
	defer func() {
		if r := recover(); r != nil {
			if _, ok := r.(unsupported); ok {
				w.Top = true
				return
			}
			panic(r)
		}
	}()
	switch x := ins.(type) {
	case *ssa.Store:
		for _, lf := range fx.famsOfLoc(fx.locOf(x.Addr)) {
			w.Fams[lf.key] = lf.sort
		}
	case *ssa.Call:
		w.add(fx.ofCall(&x.Call))
	case *ssa.Defer:
		w.add(fx.ofCall(&x.Call))
	case *ssa.Go:
		w.Top = true
	case *ssa.Alloc:
		if hasArrayField(x.Type().(*types.Pointer).Elem(), 0) {
			w.AllocArr = true
		}
	}
	return w
}

func (fx *effects) ofCall(c *ssa.CallCommon) *WriteSet {
	w := newWS()
	if c.IsInvoke() {
		// devirtualised interface: the single implementation's effects
		if n, ok := c.Value.Type().(*types.Named); ok && n.Obj().Pkg() != nil {
			if target, ok := fx.C.Devirt[n.Obj().Pkg().Path()+"."+n.Obj().Name()]; ok {
				dot := strings.LastIndex(target, ".")
				if sp := fx.P.SPkgs[target[:dot]]; sp != nil {
					if obj := sp.Pkg.Scope().Lookup(target[dot+1:]); obj != nil {
						ms := fx.P.Prog.MethodSets.MethodSet(types.NewPointer(obj.Type()))
						if sel := ms.Lookup(c.Method.Pkg(), c.Method.Name()); sel != nil {
							if fn := fx.P.Prog.MethodValue(sel); fn != nil {
								return fx.of(fn)
							}
						}
					}
				}
			}
		}
		key := ifaceMethodKey(c)
		if fc := fx.C.Funcs[key]; fc != nil && fc.HasModifies && len(fc.Modifies) == 0 {
			return w
		}
		if fc := fx.C.Funcs[key]; fc != nil && fc.Trusted {
			// trusted interface contract: writes through its slice arguments only
			for _, a := range c.Args {
				for _, lf := range fx.elemFams(a.Type()) {
					w.Fams[lf.key] = lf.sort
				}
			}
			if !fc.HasModifies {
				w.Top = true
			}
			return w
		}
		w.Top = true
		return w
	}
	switch callee := c.Value.(type) {
	case *ssa.Builtin:
		switch callee.Name() {
		case "copy", "append":
			for _, lf := range fx.elemFams(c.Args[0].Type()) {
				w.Fams[lf.key] = lf.sort
			}
		case "clear":
			for _, lf := range fx.elemFams(c.Args[0].Type()) {
				w.Fams[lf.key] = lf.sort
			}
		}
		return w
	case *ssa.Function:
		return fx.ofStatic(callee, c)
	case *ssa.MakeClosure:
		return fx.ofStatic(callee.Fn.(*ssa.Function), c)
	}
	w.Top = true
	return w
}

func (fx *effects) ofStatic(fn *ssa.Function, c *ssa.CallCommon) *WriteSet {
	if fn.Blocks == nil || !isRepoFunc(fn) {
		if fn.Blocks != nil && inlinableExternal(fn) {
			return fx.of(fn)
		}
		return fx.external(fn, c)
	}
	return fx.of(fn)
}

// external functions write only through their arguments (an assumption, listed in the evidence);
// passing a function or a non-benign interface makes the call a call-out.
func (fx *effects) external(fn *ssa.Function, c *ssa.CallCommon) *WriteSet {
	w := newWS()
	key := funcKey(fn)
	if fc := fx.C.Funcs[key]; fc != nil && fc.HasModifies && len(fc.Modifies) == 0 {
		return w
	}
	if fc := fx.C.Funcs[key]; fc != nil {
		for _, m := range fc.Modifies {
			if m.Kind == SIdent && fx.C.GhostMaps[m.Name] {
				w.Fams["ghost:"+m.Name] = I64
			}
		}
	}
	benign := isBenignExternal(key)
	params := fn.Signature.Params()
	for i := 0; i < params.Len(); i++ {
		t := params.At(i).Type()
		switch u := under(t).(type) {
		case *types.Slice:
			for _, lf := range fx.e.leafFamilies(u.Elem(), "elem:"+typeName(u.Elem())) {
				w.Fams[lf.key] = lf.sort
			}
		case *types.Pointer:
			if isRepoType(u.Elem()) || !benign {
				for _, lf := range fx.famsOfLoc(staticLoc{t: u.Elem(), heap: isStruct(u.Elem()), prefix: "cell:" + typeName(u.Elem())}) {
					w.Fams[lf.key] = lf.sort
				}
			}
		case *types.Signature:
			w.Top = true
		case *types.Interface:
			if !benign {
				w.Top = true
			}
		}
	}
	return w
}

func isStruct(t types.Type) bool { _, ok := structOf(t); return ok }

func isRepoType(t types.Type) bool {
	if n, ok := t.(*types.Named); ok && n.Obj().Pkg() != nil {
		return strings.HasPrefix(n.Obj().Pkg().Path(), modPath)
	}
	return false
}

func inlinableExternal(fn *ssa.Function) bool {
	if fn.Pkg == nil {
		return false
	}
	switch fn.Pkg.Pkg.Path() {
	case "encoding/binary":
		return true
	case "time":
		// tiny accessors such as Duration.Nanoseconds / Milliseconds
		n := 0
		for _, b := range fn.Blocks {
			for _, ins := range b.Instrs {
				if _, isCall := ins.(*ssa.Call); isCall {
					return false
				}
				n++
			}
		}
		return n <= 24
	}
	return false
}

func ifaceMethodKey(c *ssa.CallCommon) string {
	// keyed by the interface type that declares the method (generic origin, no type arguments)
	m := c.Method.Origin()
	if sig, ok := m.Type().(*types.Signature); ok && sig.Recv() != nil {
		rt := sig.Recv().Type()
		if n, ok := rt.(*types.Named); ok {
			o := n.Origin().Obj()
			if o.Pkg() != nil {
				return "iface:" + o.Pkg().Path() + "." + o.Name() + "." + m.Name()
			}
			return "iface:" + o.Name() + "." + m.Name()
		}
	}
	t := c.Value.Type()
	return "iface:" + types.TypeString(t, nil) + "." + c.Method.Name()
}

func hasArrayField(t types.Type, depth int) bool {
	if depth > 6 {
		return true
	}
	su, ok := structOf(t)
	if !ok {
		return false
	}
	for i := 0; i < su.NumFields(); i++ {
		ft := su.Field(i).Type()
		if _, ok := under(ft).(*types.Array); ok {
			return true
		}
		if _, ok := structOf(ft); ok && hasArrayField(ft, depth+1) {
			return true
		}
	}
	return false
}
