package main

// Generic replay: turn the solver's model of a failed obligation into an in-package Go test
// that builds exactly that pre-state, calls the real function and evaluates the failed
// clause (or observes the panic). The test is injected with `go test -overlay`; nothing is
// written into the repository.

import (
	"encoding/json"
	"fmt"
	"go/types"
	"os"
	"os/exec"
	"path/filepath"
	"sort"
	"strconv"
	"strings"
	"time"
)

type modelTable struct {
	vars map[string]string            // symbol -> value
	fams map[string]map[string]string // family symbol -> address value -> value
}

func buildModelTable(o *Obligation) *modelTable {
	mt := &modelTable{vars: map[string]string{}, fams: map[string]map[string]string{}}
	args := map[string]string{}
	for k, v := range o.Model {
		if strings.HasPrefix(k, "ARG:") {
			args[strings.TrimPrefix(k, "ARG:")] = v
		}
	}
	for k, v := range o.Model {
		if strings.HasPrefix(k, "ARG:") {
			continue
		}
		if i := strings.Index(k, "["); i > 0 && strings.HasSuffix(k, "]") {
			fam := k[:i]
			arg := k[i+1 : len(k)-1]
			av, ok := args[arg]
			if !ok {
				if vv, isVar := o.Model[arg]; isVar {
					av = vv
				} else {
					av = arg
				}
			}
			if mt.fams[fam] == nil {
				mt.fams[fam] = map[string]string{}
			}
			mt.fams[fam][av] = v
			continue
		}
		mt.vars[k] = v
	}
	return mt
}

// lookupVar finds the model value of the fresh symbol created for name (name!N).
func (mt *modelTable) lookupVar(name string) (string, bool) {
	best := ""
	for k := range mt.vars {
		if strings.HasPrefix(k, sanitize(name)+"!") {
			if best == "" || len(k) < len(best) || (len(k) == len(best) && k < best) {
				best = k
			}
		}
	}
	if best == "" {
		return "", false
	}
	return mt.vars[best], true
}

type replayGen struct {
	P       *Program
	C       *Contracts
	mt      *modelTable
	pkg     *types.Package
	sb      strings.Builder
	imports map[string]string // name -> path
	n       int
	fail    string
	objects map[string]string // ref value + type -> variable
}

func (g *replayGen) qual(p *types.Package) string {
	if p == g.pkg {
		return ""
	}
	g.imports[p.Name()] = p.Path()
	return p.Name()
}

func (g *replayGen) typeStr(t types.Type) string {
	return types.TypeString(t, g.qual)
}

func (g *replayGen) tmp(prefix string) string {
	g.n++
	return fmt.Sprintf("%s%d", prefix, g.n)
}

func famSym(key string) string { return sanitize(key + "@0") }

func (g *replayGen) famVal(key, addr string) (string, bool) {
	m := g.mt.fams[famSym(key)]
	if m == nil {
		return "", false
	}
	v, ok := m[addr]
	return v, ok
}

func intLit(v string, t types.Type) string {
	if v == "" {
		return "0"
	}
	if b, ok := under(t).(*types.Basic); ok && b.Info()&types.IsBoolean != 0 {
		return v
	}
	return v
}

// buildSlice emits code creating a slice with the model's len/cap/contents.
func (g *replayGen) buildSlice(t types.Type, ptr, ln, cp string) string {
	st := under(t).(*types.Slice)
	l, _ := strconv.ParseInt(ln, 10, 64)
	c, _ := strconv.ParseInt(cp, 10, 64)
	p, _ := strconv.ParseInt(ptr, 10, 64)
	if ln == "" || cp == "" {
		return "nil"
	}
	if p == 0 && c == 0 {
		return "nil"
	}
	if c > 1<<24 || l < 0 || c < l {
		g.fail = fmt.Sprintf("model slice too large or ill-formed (len %d cap %d)", l, c)
		return "nil"
	}
	v := g.tmp("s")
	fmt.Fprintf(&g.sb, "\t%s := make(%s, %d, %d)\n", v, g.typeStr(t), l, c)
	if _, ok := leafSort(st.Elem()); ok {
		fam := g.mt.fams[famSym("elem:"+typeName(st.Elem()))]
		var addrs []string
		for a := range fam {
			addrs = append(addrs, a)
		}
		sort.Strings(addrs)
		for _, a := range addrs {
			ai, err := strconv.ParseInt(a, 10, 64)
			if err != nil || ai < p || ai >= p+c {
				continue
			}
			fmt.Fprintf(&g.sb, "\t%s[:%d][%d] = %s\n", v, c, ai-p, fam[a])
		}
	}
	return v
}

// buildValue emits code for a value of type t. sym is the symbol prefix for parameters;
// for heap fields (key, addr) locate the model entries.
func (g *replayGen) paramValue(name string, t types.Type) string {
	switch u := under(t).(type) {
	case *types.Basic:
		if u.Info()&types.IsString != 0 {
			return `""`
		}
		v, ok := g.mt.lookupVar(name)
		if !ok {
			if u.Info()&types.IsBoolean != 0 {
				return "false"
			}
			return "0"
		}
		if u.Info()&types.IsInteger != 0 {
			return g.typeStr(t) + "(" + v + ")"
		}
		return v
	case *types.Slice:
		p, _ := g.mt.lookupVar(name + ".ptr")
		l, _ := g.mt.lookupVar(name + ".len")
		c, _ := g.mt.lookupVar(name + ".cap")
		return g.buildSlice(t, p, l, c)
	case *types.Pointer:
		ref, ok := g.mt.lookupVar(name)
		if !ok || ref == "0" {
			return "nil"
		}
		return g.buildObject(u.Elem(), ref)
	case *types.Struct:
		var parts []string
		for i := 0; i < u.NumFields(); i++ {
			parts = append(parts, u.Field(i).Name()+": "+g.paramValue(name+"."+u.Field(i).Name(), u.Field(i).Type()))
		}
		return g.typeStr(t) + "{" + strings.Join(parts, ", ") + "}"
	case *types.Interface, *types.Signature, *types.Map, *types.Chan:
		return "nil"
	}
	g.fail = "parameter of type " + t.String()
	return "nil"
}

func (g *replayGen) buildObject(t types.Type, ref string) string {
	k := ref + "|" + t.String()
	if v, ok := g.objects[k]; ok {
		return v
	}
	su, ok := structOf(t)
	if !ok {
		g.fail = "pointer to " + t.String()
		return "nil"
	}
	v := g.tmp("o")
	g.objects[k] = v
	fmt.Fprintf(&g.sb, "\t%s := new(%s)\n", v, g.typeStr(t))
	for i := 0; i < su.NumFields(); i++ {
		f := su.Field(i)
		key := typeName(t) + "." + f.Name()
		switch fu := under(f.Type()).(type) {
		case *types.Basic:
			if fu.Info()&types.IsString != 0 {
				continue
			}
			if val, ok := g.famVal(key, ref); ok {
				if fu.Info()&types.IsInteger != 0 {
					fmt.Fprintf(&g.sb, "\tsonicvcSet(%s, %q, %s(%s))\n", v, f.Name(), g.typeStr(f.Type()), val)
				} else if fu.Info()&types.IsBoolean != 0 {
					fmt.Fprintf(&g.sb, "\tsonicvcSet(%s, %q, %s)\n", v, f.Name(), val)
				}
			}
		case *types.Slice:
			p, _ := g.famVal(key+"#ptr", ref)
			l, _ := g.famVal(key+"#len", ref)
			c, _ := g.famVal(key+"#cap", ref)
			sv := g.buildSlice(f.Type(), p, l, c)
			if sv != "nil" {
				fmt.Fprintf(&g.sb, "\tsonicvcSet(%s, %q, %s)\n", v, f.Name(), sv)
			}
		case *types.Pointer:
			if val, ok := g.famVal(key, ref); ok && val != "0" {
				if _, isStruct := structOf(fu.Elem()); isStruct {
					ov := g.buildObject(fu.Elem(), val)
					fmt.Fprintf(&g.sb, "\tsonicvcSet(%s, %q, %s)\n", v, f.Name(), ov)
				}
			}
		}
	}
	return v
}

// specGo translates a contract expression to Go source. old: inside old(...).
func (g *replayGen) specGo(x *SExpr, old bool, bound map[string]bool) string {
	switch x.Kind {
	case SNum:
		return x.Num.String()
	case SStr:
		return strconv.Quote(x.Name)
	case SIdent:
		if bound[x.Name] {
			return x.Name
		}
		if old && g.isParam(x.Name) {
			return "old_" + x.Name
		}
		return x.Name
	case SUnary:
		return "(" + x.Op + g.specGo(x.Args[0], old, bound) + ")"
	case SBinary:
		return "(" + g.specGo(x.Args[0], old, bound) + " " + x.Op + " " + g.specGo(x.Args[1], old, bound) + ")"
	case SImp:
		return "(!(" + g.specGo(x.Args[0], old, bound) + ") || (" + g.specGo(x.Args[1], old, bound) + "))"
	case SCond:
		return "sonicvcIte(" + g.specGo(x.Args[0], old, bound) + ", " + g.specGo(x.Args[1], old, bound) + ", " + g.specGo(x.Args[2], old, bound) + ")"
	case SForall:
		nb := map[string]bool{}
		for k := range bound {
			nb[k] = true
		}
		nb[x.Vars[0]] = true
		return fmt.Sprintf("sonicvcForall(sonicvcBound, func(%s int) bool { return %s })", x.Vars[0], g.specGo(x.Args[0], old, nb))
	case SSel:
		return g.specGo(x.Args[0], old, bound) + "." + x.Name
	case SIndex:
		return "sonicvcAt(" + g.specGo(x.Args[0], old, bound) + ", " + g.specGo(x.Args[1], old, bound) + ")"
	case SSlice:
		lo, hi := "0", ""
		base := g.specGo(x.Args[0], old, bound)
		if x.Args[1] != nil {
			lo = g.specGo(x.Args[1], old, bound)
		}
		if x.Args[2] != nil {
			hi = g.specGo(x.Args[2], old, bound)
		} else {
			hi = "len(" + base + ")"
		}
		return "sonicvcSlice(" + base + ", " + lo + ", " + hi + ")"
	case SCall:
		f := x.Args[0]
		var as []string
		if f.Kind == SIdent {
			switch f.Name {
			case "old":
				return g.specGo(x.Args[1], true, bound)
			case "alias":
				return "sonicvcAlias(" + g.specGo(x.Args[1], old, bound) + ", " + g.specGo(x.Args[2], old, bound) + ")"
			case "disjoint":
				return "sonicvcDisjoint(" + g.specGo(x.Args[1], old, bound) + ", " + g.specGo(x.Args[2], old, bound) + ")"
			case "ptr":
				return "sonicvcPtr(" + g.specGo(x.Args[1], old, bound) + ")"
			case "ite":
				return "sonicvcIte(" + g.specGo(x.Args[1], old, bound) + ", " + g.specGo(x.Args[2], old, bound) + ", " + g.specGo(x.Args[3], old, bound) + ")"
			case "fresh", "freshobj", "heapslice", "unchanged_except":
				return "true"
			}
		}
		for _, a := range x.Args[1:] {
			as = append(as, g.specGo(a, old, bound))
		}
		return g.specGo(f, old, bound) + "(" + strings.Join(as, ", ") + ")"
	}
	g.fail = "cannot translate " + x.String()
	return "false"
}

var curReplayParams map[string]bool

func (g *replayGen) isParam(n string) bool { return curReplayParams[n] }

const replayHelpers = `
type sonicvcIndet struct{}

const sonicvcBound = 1 << 12

func sonicvcIte[T any](c bool, a, b T) T {
	if c {
		return a
	}
	return b
}

func sonicvcForall(n int, f func(int) bool) bool {
	for j := -2; j <= n; j++ {
		if !f(j) {
			return false
		}
	}
	return true
}

func sonicvcAt[T any](s []T, j int) T {
	if j < 0 || j >= cap(s) {
		var z T
		sonicvcOOR++
		return z
	}
	return s[:cap(s)][j]
}

var sonicvcOOR int

func sonicvcSlice[T any](s []T, lo, hi int) []T {
	if lo < 0 || hi < lo || hi > cap(s) {
		panic(sonicvcIndet{})
	}
	return s[lo:hi:cap(s)]
}

func sonicvcPtr[T any](s []T) int {
	return int(uintptr(unsafe.Pointer(unsafe.SliceData(s))))
}

func sonicvcAlias[T any](a, b []T) bool {
	return len(a) == len(b) && (len(a) == 0 || unsafe.SliceData(a) == unsafe.SliceData(b))
}

func sonicvcDisjoint[T any](a, b []T) bool {
	if len(a) <= 0 || len(b) <= 0 {
		return true
	}
	var z T
	sz := int(unsafe.Sizeof(z))
	pa, pb := sonicvcPtr(a), sonicvcPtr(b)
	return pa+len(a)*sz <= pb || pb+len(b)*sz <= pa
}

// deep clone: structs are copied, slices get their own backing array (capacity kept),
// pointers to structs are followed.
func sonicvcClone(v reflect.Value, depth int) reflect.Value {
	switch v.Kind() {
	case reflect.Ptr:
		if v.IsNil() || depth > 4 || v.Elem().Kind() != reflect.Struct {
			return v
		}
		n := reflect.New(v.Elem().Type())
		sonicvcCopyStruct(n.Elem(), v.Elem(), depth)
		return n
	case reflect.Slice:
		if v.IsNil() {
			return v
		}
		full := v.Slice3(0, v.Cap(), v.Cap())
		n := reflect.MakeSlice(v.Type(), v.Cap(), v.Cap())
		reflect.Copy(n, full)
		return n.Slice3(0, v.Len(), v.Cap())
	}
	return v
}

func sonicvcCopyStruct(dst, src reflect.Value, depth int) {
	for i := 0; i < src.NumField(); i++ {
		sf := reflect.NewAt(src.Field(i).Type(), unsafe.Pointer(src.Field(i).UnsafeAddr())).Elem()
		df := reflect.NewAt(dst.Field(i).Type(), unsafe.Pointer(dst.Field(i).UnsafeAddr())).Elem()
		switch sf.Kind() {
		case reflect.Ptr, reflect.Slice:
			df.Set(sonicvcClone(sf, depth+1))
		case reflect.Struct:
			sonicvcCopyStruct(df, sf, depth+1)
		default:
			df.Set(sf)
		}
	}
}

// sonicvcSet assigns a (possibly unexported) field of the struct obj points to.
func sonicvcSet(obj interface{}, field string, val interface{}) {
	f := reflect.ValueOf(obj).Elem().FieldByName(field)
	reflect.NewAt(f.Type(), unsafe.Pointer(f.UnsafeAddr())).Elem().Set(reflect.ValueOf(val).Convert(f.Type()))
}

func sonicvcCloneOf[T any](v T) T {
	rv := reflect.ValueOf(&v).Elem()
	out := reflect.New(rv.Type()).Elem()
	switch rv.Kind() {
	case reflect.Ptr, reflect.Slice:
		out.Set(sonicvcClone(rv, 0))
	case reflect.Struct:
		sonicvcCopyStruct(out, rv, 0)
	default:
		out.Set(rv)
	}
	return out.Interface().(T)
}
`

func replayObligation(P *Program, C *Contracts, o *Obligation, repo string) (map[string]interface{}, bool) {
	rep := map[string]interface{}{}
	fn := P.Funcs[o.Fn]
	if fn == nil || fn.Parent() != nil || fn.Pkg == nil {
		rep["note"] = "no generic replay for closures"
		return rep, false
	}
	if strings.HasPrefix(o.Name, "in:") && !strings.Contains(o.Name, "/safe/") {
		rep["note"] = "obligation inside an inlined callee"
	}
	fc := C.lookup(o.Fn)
	g := &replayGen{P: P, C: C, mt: buildModelTable(o), pkg: fn.Pkg.Pkg, imports: map[string]string{}, objects: map[string]string{}}
	curReplayParams = map[string]bool{}
	var argNames []string
	var body strings.Builder
	for i, p := range fn.Params {
		name := p.Name()
		if name == "" || name == "_" {
			name = fmt.Sprintf("p%d", i)
		}
		curReplayParams[name] = true
		val := g.paramValue(p.Name(), p.Type())
		fmt.Fprintf(&g.sb, "\tvar %s %s = %s\n", name, g.typeStr(p.Type()), val)
		fmt.Fprintf(&g.sb, "\told_%s := sonicvcCloneOf(%s)\n\t_ = old_%s\n", name, name, name)
		argNames = append(argNames, name)
	}
	if g.fail != "" {
		rep["note"] = "model not constructible: " + g.fail
		return rep, false
	}
	// predicates of the package
	var preds []string
	for k, pd := range C.Preds {
		if strings.Contains(k, ".") && pd.Pkg == fn.Pkg.Pkg.Path() {
			preds = append(preds, k)
		}
	}
	sort.Strings(preds)
	isPost := o.Kind == "post"
	var clause *Clause
	if isPost && fc != nil {
		for k, cl := range fc.Ensures {
			nm := strings.TrimPrefix(o.Name, "post/")
			if i := strings.Index(nm, "@ret"); i >= 0 {
				nm = nm[:i]
			}
			if clauseLabel(cl, k) == nm {
				clause = cl
			}
		}
	}
	if o.Kind != "safe" && clause == nil {
		rep["note"] = "replay supports post/ and safe/ obligations of top-level functions"
		return rep, false
	}
	if clause != nil {
		// only the predicates the clause (transitively) uses
		used := map[string]bool{}
		var scan func(x *SExpr)
		scan = func(x *SExpr) {
			if x == nil {
				return
			}
			if x.Kind == SCall && x.Args[0].Kind == SIdent {
				if pd := C.Preds[fn.Pkg.Pkg.Path()+"."+x.Args[0].Name]; pd != nil && !used[pd.Name] {
					used[pd.Name] = true
					scan(pd.Body)
				}
			}
			for _, a := range x.Args {
				scan(a)
			}
		}
		scan(clause.Expr)
		for _, l := range fc.Lets {
			scan(l.Expr)
		}
		for _, k := range preds {
			pd := C.Preds[k]
			if !used[pd.Name] {
				continue
			}
			fmt.Fprintf(&body, "\tvar %s func(%s) bool\n\t%s = func(%s) bool { return %s }\n\t_ = %s\n", pd.Name, pd.ParamText, pd.Name, pd.ParamText, g.specGo(pd.Body, false, map[string]bool{}), pd.Name)
		}
		for _, l := range fc.Lets {
			fmt.Fprintf(&body, "\t%s := %s\n\t_ = %s\n", l.Name, g.specGo(l.Expr, false, map[string]bool{}), l.Name)
		}
	}
	// the call
	res := fn.Signature.Results()
	var rnames []string
	for i := 0; i < res.Len(); i++ {
		n := res.At(i).Name()
		if n == "" || n == "_" {
			n = fmt.Sprintf("result%d", i)
		}
		rnames = append(rnames, n)
	}
	call := ""
	if fn.Signature.Recv() != nil {
		call = argNames[0] + "." + fn.Name() + "(" + strings.Join(argNames[1:], ", ") + ")"
	} else {
		call = fn.Name() + "(" + strings.Join(argNames, ", ") + ")"
	}
	if len(rnames) > 0 {
		fmt.Fprintf(&body, "\t%s := %s\n", strings.Join(rnames, ", "), call)
		for _, n := range rnames {
			fmt.Fprintf(&body, "\t_ = %s\n", n)
		}
		if len(rnames) == 1 {
			fmt.Fprintf(&body, "\tresult := %s\n\t_ = result\n", rnames[0])
		}
	} else {
		fmt.Fprintf(&body, "\t%s\n", call)
	}
	if clause != nil {
		fmt.Fprintf(&body, "\tfmt.Println(\"REPLAY-CLAUSE:\", %s, \"oor=\", sonicvcOOR)\n", g.specGo(clause.Expr, false, map[string]bool{}))
	} else {
		fmt.Fprintf(&body, "\tfmt.Println(\"REPLAY-RETURNED\")\n")
	}
	if g.fail != "" {
		rep["note"] = "clause not translatable: " + g.fail
		return rep, false
	}
	var src strings.Builder
	fmt.Fprintf(&src, "package %s\n\nimport (\n\t\"fmt\"\n\t\"reflect\"\n\t\"testing\"\n\t\"unsafe\"\n", fn.Pkg.Pkg.Name())
	var ims []string
	for n := range g.imports {
		ims = append(ims, n)
	}
	sort.Strings(ims)
	// packages referenced by name in contract text
	for _, n := range []string{"sonicerrors", "io", "internal"} {
		if strings.Contains(body.String(), n+".") {
			if _, ok := g.imports[n]; !ok {
				switch n {
				case "sonicerrors":
					g.imports[n] = modPath + "/sonicerrors"
				case "io":
					g.imports[n] = "io"
				case "internal":
					g.imports[n] = modPath + "/internal"
				}
				ims = append(ims, n)
			}
		}
	}
	for _, n := range ims {
		fmt.Fprintf(&src, "\t%q\n", g.imports[n])
	}
	src.WriteString(")\n\nvar _ = reflect.ValueOf\nvar _ unsafe.Pointer\n")
	src.WriteString(replayHelpers)
	src.WriteString("\nfunc TestSonicvcReplay(t *testing.T) {\n\tdefer func() {\n\t\tif r := recover(); r != nil {\n\t\t\tif _, ok := r.(sonicvcIndet); ok {\n\t\t\t\tfmt.Println(\"REPLAY-INDETERMINATE\")\n\t\t\t\treturn\n\t\t\t}\n\t\t\tfmt.Println(\"REPLAY-PANIC:\", r)\n\t\t}\n\t}()\n")
	src.WriteString(g.sb.String())
	src.WriteString(body.String())
	src.WriteString("}\n")
	rep["test_source"] = src.String()
	out, err := runOverlayTest(repo, fn.Pkg.Pkg.Path(), src.String())
	rep["test_output"] = firstLines(out, 30)
	if err != nil {
		rep["run_error"] = err.Error()
	}
	reproduced := false
	switch {
	case strings.Contains(out, "REPLAY-PANIC:"):
		reproduced = true
		rep["observed"] = "the real function panicked on the model's input"
	case strings.Contains(out, "REPLAY-CLAUSE: false"):
		reproduced = true
		rep["observed"] = "the failed clause evaluates to false after the real call"
	case strings.Contains(out, "REPLAY-CLAUSE: true"):
		rep["observed"] = "clause holds on the concrete input (spurious model or unmodelled aspect)"
	}
	return rep, reproduced
}

// runOverlayTest injects src as an extra _test.go file of the package and runs it.
func runOverlayTest(repo, pkgPath, src string) (string, error) {
	dir, err := os.MkdirTemp("/var/tmp", "sonicvc-replay-")
	if err != nil {
		return "", err
	}
	defer os.RemoveAll(dir)
	rel := strings.TrimPrefix(strings.TrimPrefix(pkgPath, modPath), "/")
	testFile := filepath.Join(dir, "sonicvc_replay_test.go")
	if err := os.WriteFile(testFile, []byte(src), 0o644); err != nil {
		return "", err
	}
	target := filepath.Join(repo, rel, "sonicvc_replay_test.go")
	ov := map[string]interface{}{"Replace": map[string]string{target: testFile}}
	ob, _ := json.Marshal(ov)
	ovFile := filepath.Join(dir, "overlay.json")
	os.WriteFile(ovFile, ob, 0o644)
	pk := "./" + rel
	if rel == "" {
		pk = "."
	}
	cmd := exec.Command("go", "test", "-overlay", ovFile, "-vet=off", "-count=1", "-timeout", "60s", "-run", "^TestSonicvcReplay$", "-v", pk)
	cmd.Dir = repo
	cmd.Env = goEnv()
	done := make(chan struct{})
	var out []byte
	go func() {
		out, err = cmd.CombinedOutput()
		close(done)
	}()
	select {
	case <-done:
	case <-time.After(180 * time.Second):
		cmd.Process.Kill()
		<-done
	}
	return string(out), err
}
