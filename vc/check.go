package main

import (
	"encoding/json"
	"fmt"
	"os"
	"sort"
	"strings"
	"sync"
	"time"
)

type KnownFinding struct {
	Property   string `json:"property"`
	Obligation string `json:"obligation"`
	Except     string `json:"except,omitempty"`
	What       string `json:"what"`
	Witness    string `json:"witness,omitempty"`
	Fixed      bool   `json:"fixed,omitempty"`
	Commit     string `json:"commit,omitempty"`
}

type FuncResult struct {
	Key   string
	Obls  []*Obligation
	Err   error
	Ctx   *VCtx
	Secs  float64
	Notes []string
}

// verifyFunctions runs the executor and the solvers for the given function keys.
func verifyFunctions(P *Program, C *Contracts, keys []string, opt solveOpts, filter func(o *Obligation) bool) []*FuncResult {
	var results []*FuncResult
	type job struct {
		fr *FuncResult
		o  *Obligation
	}
	var jobs []job
	for _, k := range keys {
		fn := P.Funcs[k]
		fr := &FuncResult{Key: k}
		results = append(results, fr)
		if fn == nil {
			fr.Err = fmt.Errorf("function %s under contract does not exist in the program", k)
			continue
		}
		t0 := time.Now()
		ex := NewExec(P, C, fn)
		obls, err := ex.Verify()
		fr.Ctx = ex.ctx
		fr.Err = err
		if err != nil {
			continue
		}
		fr.Secs = time.Since(t0).Seconds()
		for _, o := range obls {
			if filter == nil || filter(o) {
				fr.Obls = append(fr.Obls, o)
				prepareObligation(ex.ctx, o, ModeInt, opt)
				jobs = append(jobs, job{fr, o})
			}
		}
	}
	var wg sync.WaitGroup
	sem := make(chan struct{}, 12)
	for _, j := range jobs {
		wg.Add(1)
		sem <- struct{}{}
		go func(j job) {
			defer wg.Done()
			defer func() { <-sem }()
			runObligation(j.o, opt)
		}(j)
	}
	wg.Wait()
	return results
}

func cmdVerify(args []string) int {
	repo := "/repo"
	mirror := "/verif/contracts"
	var pats []string
	verbose := false
	keep := false
	secs := 15
	for i := 0; i < len(args); i++ {
		switch args[i] {
		case "--repo":
			i++
			repo = args[i]
		case "--contracts":
			i++
			mirror = args[i]
		case "-v":
			verbose = true
		case "--keep":
			keep = true
		case "--secs":
			i++
			fmt.Sscanf(args[i], "%d", &secs)
		default:
			pats = append(pats, args[i])
		}
	}
	P, err := LoadProgram(repo)
	if err != nil {
		fmt.Fprintln(os.Stderr, "ERROR", err)
		return 2
	}
	C, err := LoadContracts(repo, mirror)
	if err != nil {
		fmt.Fprintln(os.Stderr, "ERROR", err)
		return 2
	}
	var keys []string
	for k, fc := range C.Funcs {
		if fc.Trusted || fc.NoBody || strings.HasPrefix(k, "iface:") {
			continue
		}
		if len(pats) == 0 {
			keys = append(keys, k)
			continue
		}
		for _, p := range pats {
			if strings.Contains(k, p) {
				keys = append(keys, k)
				break
			}
		}
	}
	sort.Strings(keys)
	wd, _ := os.MkdirTemp("/var/tmp", "sonicvc-")
	if !keep {
		defer os.RemoveAll(wd)
	} else {
		fmt.Println("workdir", wd)
	}
	res := verifyFunctions(P, C, keys, solveOpts{secs: secs, workdir: wd, keep: keep}, nil)
	bad := 0
	for _, fr := range res {
		if fr.Err != nil {
			fmt.Printf("ERROR %s\n", fr.Err)
			bad++
			continue
		}
		ok := 0
		for _, o := range fr.Obls {
			if o.Result == "unsat" {
				ok++
			}
		}
		fmt.Printf("%-60s %d/%d  (%.2fs exec)\n", shortKey(fr.Key), ok, len(fr.Obls), fr.Secs)
		for _, o := range fr.Obls {
			if o.Result != "unsat" || verbose {
				fmt.Printf("   %-8s %-9s %5.2fs %s   [%s] %s\n", o.Result, o.Backend, o.Secs, o.Name, o.Pos, o.Clause)
				if o.Result == "sat" {
					var ks []string
					for k := range o.Model {
						ks = append(ks, k)
					}
					sort.Strings(ks)
					var parts []string
					for _, k := range ks {
						parts = append(parts, k+"="+o.Model[k])
					}
					fmt.Printf("      model: %s\n", strings.Join(parts, " "))
				}
				if o.Result == "error" || o.Result == "unknown" {
					fmt.Printf("      %s\n", firstLines(o.Output, 3))
				}
				if o.Result != "unsat" {
					bad++
				}
			}
		}
		if verbose {
			for _, n := range fr.Ctx.notes {
				fmt.Println("   note:", n)
			}
		}
	}
	if bad > 0 {
		return 1
	}
	return 0
}

func firstLines(s string, n int) string {
	ls := strings.Split(strings.TrimSpace(s), "\n")
	if len(ls) > n {
		ls = ls[:n]
	}
	return strings.Join(ls, " | ")
}

var _ = json.Marshal
