package main

import (
	"encoding/json"
	"fmt"
	"golang.org/x/tools/go/ssa"
	"os"
	"regexp"
	"sort"
	"strings"
	"sync"
	"time"
)

type KnownFinding struct {
	Property   string `json:"property"`
	Obligation string `json:"obligation"`
	Except     string `json:"except,omitempty"`
	What       string `json:"what"`
	Witness    string `json:"witness,omitempty"`
	Fixed      bool   `json:"fixed,omitempty"`
	Commit     string `json:"commit,omitempty"`
}

type FuncResult struct {
	Key   string
	Obls  []*Obligation
	Err   error
	Ctx   *VCtx
	Secs  float64
	Notes []string
	Exec  *Exec
}

// verifyFunctions runs the executor and the solvers for the given function keys.
// PrepareSecs: time spent rendering queries (sequential part of a run).
var PrepareSecs float64

func verifyFunctions(P *Program, C *Contracts, keys []string, opt solveOpts, filter func(o *Obligation) bool) []*FuncResult {
	var results []*FuncResult
	type job struct {
		fr *FuncResult
		o  *Obligation
	}
	var jobs []job
	var wg sync.WaitGroup
	sem := make(chan struct{}, 4)
	// a contract on a generic function covers every instance the program contains
	var expanded []string
	for _, k := range keys {
		fn := P.Funcs[k]
		if fn != nil && fn.TypeParams().Len() > 0 && len(fn.TypeArgs()) == 0 {
			var inst []string
			for ik, f := range P.Funcs {
				if f.Origin() == fn {
					inst = append(inst, ik)
				}
			}
			sort.Strings(inst)
			expanded = append(expanded, inst...)
			continue
		}
		if fn == nil {
			// a contract written against a generic method: every instance in the program
			var inst []string
			for ik := range P.Funcs {
				if ik != k && stripTypeArgs(ik) == k && !strings.Contains(ik, "[Enc") && !strings.Contains(ik, "[T") {
					inst = append(inst, ik)
				}
			}
			if len(inst) > 0 {
				sort.Strings(inst)
				expanded = append(expanded, inst...)
				continue
			}
		}
		expanded = append(expanded, k)
	}
	keys = expanded
	for _, k := range keys {
		fn := P.Funcs[k]
		fr := &FuncResult{Key: k}
		results = append(results, fr)
		if fn == nil {
			fr.Err = fmt.Errorf("function %s under contract does not exist in the program", k)
			continue
		}
		t0 := time.Now()
		TSMu.Lock()
		ex := NewExec(P, C, fn)
		obls, err := ex.Verify()
		TSMu.Unlock()
		fr.Ctx = ex.ctx
		fr.Exec = ex
		fr.Err = err
		if err != nil {
			continue
		}
		fr.Secs = time.Since(t0).Seconds()
		for _, o := range obls {
			if filter == nil || filter(o) {
				fr.Obls = append(fr.Obls, o)
				mode := ModeInt
				if ex.fc != nil && ex.fc.BV {
					mode = ModeBV
				}
				// queries are rendered here, one after the other (the term store is not
				// thread-safe); the solvers run in the background while the next is rendered
				tp := time.Now()
				TSMu.Lock()
				prepareObligation(ex.ctx, o, mode, opt)
				TSMu.Unlock()
				PrepareSecs += time.Since(tp).Seconds()
				jobs = append(jobs, job{fr, o})
				wg.Add(1)
				sem <- struct{}{}
				go func(j job) {
					defer wg.Done()
					defer func() { <-sem }()
					runObligation(j.o, opt)
				}(job{fr, o})
			}
		}
	}
	wg.Wait()
	for _, fr := range results {
		if fr.Exec == nil || fr.Exec.softErr == nil || fr.Err != nil {
			continue
		}
		failed := false
		for _, o := range fr.Obls {
			if o.Result == "sat" {
				failed = true
			}
		}
		if !failed {
			fr.Err = fr.Exec.softErr
		}
	}
	if os.Getenv("SONICVC_SLOW") != "" {
		fmt.Printf("rendering queries: %.1fs\n", PrepareSecs)
	}
	return results
}

func cmdVerify(args []string) int {
	repo := "/repo"
	mirror := "/verif/contracts"
	var pats []string
	verbose := false
	keep := false
	secs := 15
	for i := 0; i < len(args); i++ {
		switch args[i] {
		case "--repo":
			i++
			repo = args[i]
		case "--contracts":
			i++
			mirror = args[i]
		case "-v":
			verbose = true
		case "--keep":
			keep = true
		case "--secs":
			i++
			fmt.Sscanf(args[i], "%d", &secs)
		default:
			pats = append(pats, args[i])
		}
	}
	P, err := LoadProgram(repo)
	if err != nil {
		fmt.Fprintln(os.Stderr, "ERROR", err)
		return 2
	}
	C, err := LoadContracts(repo, mirror)
	if err != nil {
		fmt.Fprintln(os.Stderr, "ERROR", err)
		return 2
	}
	var keys []string
	for k, fc := range C.Funcs {
		if fc.Trusted || fc.NoBody || strings.HasPrefix(k, "iface:") || strings.HasPrefix(k, "fnparam:") {
			continue
		}
		if len(pats) == 0 {
			keys = append(keys, k)
			continue
		}
		for _, p := range pats {
			if strings.Contains(k, p) {
				keys = append(keys, k)
				break
			}
		}
	}
	sort.Strings(keys)
	wd, _ := os.MkdirTemp("/var/tmp", "sonicvc-")
	if !keep {
		defer os.RemoveAll(wd)
	} else {
		fmt.Println("workdir", wd)
	}
	res := verifyFunctions(P, C, keys, solveOpts{secs: secs, workdir: wd, keep: keep}, nil)
	bad := 0
	if len(pats) == 0 {
		for _, o := range staticObligations(P, C) {
			if o.Result != "unsat" {
				fmt.Printf("   %-8s static %s: %s\n", o.Result, o.Name, o.Clause)
				bad++
			}
		}
	}
	for _, fr := range res {
		if fr.Err != nil {
			fmt.Printf("ERROR %s\n", fr.Err)
			bad++
			continue
		}
		ok := 0
		for _, o := range fr.Obls {
			if o.Result == "unsat" {
				ok++
			}
		}
		fmt.Printf("%-60s %d/%d  (%.2fs exec)\n", shortKey(fr.Key), ok, len(fr.Obls), fr.Secs)
		if !vacuityOK(fr, solveOpts{secs: secs, workdir: wd, keep: keep}) {
			fmt.Printf("   VACUOUS: hypotheses are unsatisfiable at every return of %s (contradictory contract or engine axioms)\n", shortKey(fr.Key))
			bad++
		}
		slow := 0.0
		fmt.Sscanf(os.Getenv("SONICVC_SLOW"), "%g", &slow)
		for _, o := range fr.Obls {
			if slow > 0 && o.Result == "unsat" && o.Wall >= slow {
				fmt.Printf("   SLOW     %-9s %5.2fs (all stages %5.2fs) %s\n", o.Backend, o.Secs, o.Wall, o.Name)
			}
			if o.Result != "unsat" || verbose {
				fmt.Printf("   %-8s %-9s %5.2fs %s   [%s] %s\n", o.Result, o.Backend, o.Secs, o.Name, o.Pos, o.Clause)
				if o.Result == "sat" {
					var ks []string
					for k := range o.Model {
						ks = append(ks, k)
					}
					sort.Strings(ks)
					var parts []string
					for _, k := range ks {
						parts = append(parts, k+"="+o.Model[k])
					}
					if os.Getenv("SONICVC_MODEL") != "" {
						fmt.Printf("      model:\n        %s\n", strings.Join(parts, "\n        "))
					} else {
						fmt.Printf("      model: %s\n", strings.Join(parts, " "))
					}
				}
				if os.Getenv("SONICVC_DEBUG") != "" && o.Result != "unsat" {
					StrDepth = 14
					fmt.Printf("      GOAL: %s\n      PC: %s\n", o.Goal, o.PC)
					StrDepth = 6
				}
				if o.Result == "error" || o.Result == "unknown" {
					fmt.Printf("      %s\n", firstLines(o.Output, 3))
				}
				if o.Result != "unsat" {
					bad++
				}
			}
		}
		if verbose {
			for _, n := range fr.Ctx.notes {
				fmt.Println("   note:", n)
			}
		}
	}
	if bad > 0 {
		return 1
	}
	return 0
}

func firstLines(s string, n int) string {
	ls := strings.Split(strings.TrimSpace(s), "\n")
	if len(ls) > n {
		ls = ls[:n]
	}
	return strings.Join(ls, " | ")
}

var _ = json.Marshal

// ---------------------------------------------------------------------------------
// check --property Cxx

type evidence struct {
	PropertyID  string                 `json:"property_id"`
	Tier        string                 `json:"tier"`
	Seed        int                    `json:"seed"`
	Level       string                 `json:"level"`
	Coverage    map[string]interface{} `json:"coverage"`
	Assumptions []string               `json:"assumptions"`
	WallS       float64                `json:"wall_s"`
	Violations  int                    `json:"violations"`
}

func hasProp(ps []string, p string) bool {
	for _, x := range ps {
		if x == p {
			return true
		}
	}
	return false
}

func contractHasProp(fc *FuncContract, p string) bool {
	if hasProp(fc.Props, p) {
		return true
	}
	for _, cl := range fc.Requires {
		if hasProp(cl.Props, p) {
			return true
		}
	}
	for _, cl := range fc.Ensures {
		if hasProp(cl.Props, p) {
			return true
		}
	}
	for _, sa := range fc.Asserts {
		if hasProp(sa.Clause.Props, p) {
			return true
		}
	}
	for _, ls := range fc.Loops {
		for _, cl := range ls.Invariants {
			if hasProp(cl.Props, p) {
				return true
			}
		}
	}
	return false
}

func loadKnownFindings(path string) ([]*KnownFinding, error) {
	b, err := os.ReadFile(path)
	if err != nil {
		if os.IsNotExist(err) {
			return nil, nil
		}
		return nil, err
	}
	var out []*KnownFinding
	for i, ln := range strings.Split(string(b), "\n") {
		ln = strings.TrimSpace(ln)
		if ln == "" || strings.HasPrefix(ln, "#") {
			continue
		}
		var k KnownFinding
		if err := json.Unmarshal([]byte(ln), &k); err != nil {
			return nil, fmt.Errorf("%s:%d: %v", path, i+1, err)
		}
		out = append(out, &k)
	}
	return out, nil
}

func cmdCheck(args []string) int {
	repo := "/repo"
	mirror := "/verif/contracts"
	prop := ""
	tier := os.Getenv("VERIF_TIER")
	if tier == "" {
		tier = "quick"
	}
	evPath := ""
	kfPath := "/verif/known-findings.jsonl"
	replayDir := "/verif/replays"
	noReplay := false
	for i := 0; i < len(args); i++ {
		switch args[i] {
		case "--repo":
			i++
			repo = args[i]
		case "--contracts":
			i++
			mirror = args[i]
		case "--property":
			i++
			prop = args[i]
		case "--tier":
			i++
			tier = args[i]
		case "--evidence":
			i++
			evPath = args[i]
		case "--known":
			i++
			kfPath = args[i]
		case "--replay-dir":
			i++
			replayDir = args[i]
		case "--no-replay":
			noReplay = true
		}
	}
	if prop == "" {
		fmt.Fprintln(os.Stderr, "ERROR --property required")
		return 2
	}
	if evPath == "" {
		evPath = "/verif/evidence/" + prop + ".json"
	}
	seed := 0
	fmt.Sscanf(os.Getenv("VERIF_SEED"), "%d", &seed)
	t0 := time.Now()
	P, err := LoadProgram(repo)
	if err != nil {
		fmt.Println("ERROR", err)
		return 2
	}
	C, err := LoadContracts(repo, mirror)
	if err != nil {
		fmt.Println("ERROR", err)
		return 2
	}
	known, err := loadKnownFindings(kfPath)
	if err != nil {
		fmt.Println("ERROR", err)
		return 2
	}
	var keys []string
	for k, fc := range C.Funcs {
		if fc.Trusted || fc.NoBody || strings.HasPrefix(k, "iface:") || strings.HasPrefix(k, "fnparam:") {
			continue
		}
		if contractHasProp(fc, prop) {
			keys = append(keys, k)
			continue
		}
		// guarded-field obligations arise in every function of the package that touches the field
		for _, gs := range C.Guarded {
			if hasProp(gs.Props, prop) && fc.Pkg == gs.Pkg {
				keys = append(keys, k)
				break
			}
		}
	}
	sort.Strings(keys)
	if len(keys) == 0 {
		fmt.Printf("ERROR no function under contract for property %s\n", prop)
		return 2
	}
	// Verification is modular: a function of the property is checked against the contracts of
	// its callees, so every callee contract it relies on has to hold too - whatever properties
	// that contract was written for. Close the set under "calls a function under contract".
	deps := contractDeps(P, C, keys)
	depOnly := map[string]bool{}
	for _, k := range deps {
		depOnly[k] = true
	}
	keys = append(keys, deps...)
	sort.Strings(keys)
	secs := 15
	all := false
	if tier == "thorough" {
		secs = 60
		all = true
	}
	if v := os.Getenv("SONICVC_SECS"); v != "" {
		fmt.Sscanf(v, "%d", &secs) // testing aid: per-query limit
	}
	wd, _ := os.MkdirTemp("/var/tmp", "sonicvc-")
	if os.Getenv("SONICVC_KEEPWD") == "" {
		defer os.RemoveAll(wd)
	} else {
		fmt.Println("workdir", wd)
	}
	opt := solveOpts{secs: secs, all: all, workdir: wd, keep: true}
	filter := func(o *Obligation) bool {
		return hasProp(o.Props, prop) || depOnly[o.Fn] || depOnly[stripTypeArgs(o.Fn)]
	}
	res := verifyFunctions(P, C, keys, opt, filter)
	// an obligation no solver decided within the limit is tried again, on its own and with
	// four times the limit, before it is reported: a time-out under load is not a violation
	retried := 0
	for _, fr := range res {
		for _, o := range fr.Obls {
			if o.Result == "unknown" && o.QueryFile != "" && retried < 4 {
				o.Result = ""
				ro := opt
				ro.secs = opt.secs * 4
				runObligationAgain(o, ro)
				fmt.Printf("note: %s/%s undecided within %ds, tried again alone with %ds: %s\n", shortKey(o.Fn), o.Name, opt.secs, ro.secs, o.Result)
				retried++
			}
		}
	}
	if retried > 0 {
		fmt.Printf("note: %d obligation(s) undecided within %ds were tried again with %ds\n", retried, opt.secs, opt.secs*4)
	}

	toolErr := false
	var allObls []*Obligation
	for _, o := range staticObligations(P, C) {
		if hasProp(o.Props, prop) {
			allObls = append(allObls, o)
		}
	}
	assumptions := map[string]int{}
	var fnNames []string
	backends := map[string]int{}
	solverSecs := 0.0
	for _, fr := range res {
		if fr.Err != nil {
			fmt.Printf("ERROR %v\n", fr.Err)
			toolErr = true
			continue
		}
		fnNames = append(fnNames, shortKey(fr.Key))
		for k, n := range fr.Ctx.assumes {
			assumptions[k] += n
		}
		// vacuity: the precondition is satisfiable and some return is reachable. A function with
		// a failed obligation is exempt: execution continues under the failed assertion, so a
		// violated assertion on every path makes the returns unreachable by construction - that
		// is the violation reported below, not an empty contract.
		anyFailed := false
		for _, o := range fr.Obls {
			if o.Result != "unsat" {
				anyFailed = true
			}
		}
		if !anyFailed && !vacuityOK(fr, opt) {
			fmt.Printf("ERROR %s: vacuous contract (precondition unsatisfiable or no reachable return)\n", shortKey(fr.Key))
			toolErr = true
		}
		for _, o := range fr.Obls {
			allObls = append(allObls, o)
			backends[o.Backend]++
			solverSecs += o.Secs
			if o.Result == "error" || o.Result == "disagree" {
				fmt.Printf("ERROR %s %s: %s\n", shortKey(o.Fn), o.Name, firstLines(o.Output, 2))
				toolErr = true
			}
		}
	}
	if floor, ok := C.Expect[prop]; ok && len(allObls) < floor {
		fmt.Printf("ERROR property %s: %d obligations generated, expected at least %d\n", prop, len(allObls), floor)
		toolErr = true
	}
	if len(allObls) == 0 {
		fmt.Printf("ERROR property %s: no obligations generated\n", prop)
		toolErr = true
	}
	// A tool error (a contract that no longer fits the code, a vacuous contract, a solver error)
	// leaves the property undecided - unless some obligation of a function that was verified is
	// refuted with a model: that refutation stands on that function's own contract and does not
	// depend on what could not be checked, so it is reported as the violation it is. Obligations
	// that merely failed to discharge (unknown, timeout) are not counted in that situation.
	undecided := toolErr
	// failed obligations
	discharged := 0
	violations := 0
	var knownHit, foreignHit []string
	knownUnproved := 0
	var samples []map[string]interface{}
	var failedSamples []map[string]interface{}
	for _, o := range allObls {
		full := shortKey(o.Fn) + "/" + o.Name
		if o.Result == "unsat" {
			discharged++
			if len(samples) < 6 && o.Backend != "simplifier" {
				samples = append(samples, map[string]interface{}{"obligation": full, "clause": o.Clause, "backend": o.Backend, "secs": o.Secs, "at": o.Pos})
			}
			continue
		}
		// known finding?
		var kf *KnownFinding
		for _, k := range known {
			if !k.Fixed && k.Property == prop && normObl(k.Obligation) == normObl(full) {
				kf = k
			}
		}
		if kf != nil {
			ok := true
			if kf.Except != "" {
				ok = verifyUnderExclusion(P, C, o, kf.Except, opt)
			}
			if ok {
				fmt.Printf("KNOWN-FINDING: property=%s %s %s\n", prop, full, kf.What)
				knownHit = append(knownHit, full)
				if kf.Except != "" {
					discharged++ // discharged under the recorded exclusion
				} else {
					knownUnproved++ // a recorded defect: this obligation is not proved and not counted
				}
				continue
			}
		}
		// an obligation of a function this property only depends on, recorded as a finding of the
		// property it belongs to: reported there; here the dependency is listed as an assumption
		foreign := false
		for _, k := range known {
			if !k.Fixed && k.Property != prop && k.Except == "" && normObl(k.Obligation) == normObl(full) {
				fmt.Printf("note: %s is a known finding of property %s (reported by that property's check); %s only depends on the function\n", full, k.Property, prop)
				foreignHit = append(foreignHit, full+" (known finding of "+k.Property+")")
				knownUnproved++
				foreign = true
				break
			}
		}
		if foreign {
			continue
		}
		if undecided && o.Result != "sat" {
			continue
		}
		violations++
		os.MkdirAll(replayDir+"/"+prop, 0o755)
		rp := fmt.Sprintf("%s/%s/%s.json", replayDir, prop, sanitize(full))
		suffix := ""
		reproduced := false
		var rep map[string]interface{}
		if !noReplay && o.Result == "sat" {
			rep, reproduced = replayObligation(P, C, o, repo)
		}
		if !reproduced {
			suffix = " no-failing-input-found"
		}
		writeReplayFile(rp, prop, o, rep, reproduced)
		fmt.Printf("VIOLATION property=%s replay=%s%s\n", prop, rp, suffix)
		fmt.Printf("  obligation %s (%s) at %s: %s\n", full, o.Result, o.Pos, o.Clause)
		failedSamples = append(failedSamples, map[string]interface{}{"obligation": full, "clause": o.Clause, "result": o.Result, "at": o.Pos})
	}
	if undecided && violations == 0 {
		fmt.Printf("UNDECIDED property=%s (tool error; see ERROR lines)\n", prop)
		return 2
	}
	if undecided {
		fmt.Printf("note: property %s: the ERROR lines above leave part of the function set unchecked; the violations reported are refuted obligations of functions that were checked\n", prop)
	}
	var asm []string
	for k, n := range assumptions {
		asm = append(asm, fmt.Sprintf("%s (used %d×)", k, n))
	}
	sort.Strings(asm)
	asm = append(asm, "go/packages+go/types+go/ssa front end and the sonicvc VC generator are trusted; Go semantics as modelled in DESIGN.md §2 (linux/amd64, allocation succeeds, slices well-formed)")
	for _, k := range foreignHit {
		asm = append(asm, "contract of a dependency not established: "+k)
	}
	for _, k := range knownHit {
		asm = append(asm, "known finding (obligation discharged only under its recorded exclusion): "+k)
	}
	srcs := map[string]bool{}
	for _, s := range C.Sources {
		srcs[s] = true
	}
	var srcl []string
	for s := range srcs {
		srcl = append(srcl, s)
	}
	sort.Strings(srcl)
	level := "proof"
	if violations > 0 {
		level = "other"
	}
	cov := map[string]interface{}{
		"obligations":              len(allObls) - knownUnproved,
		"discharged":               discharged,
		"checker_cmd":              "bin/sonicvc check --property " + prop + " --tier " + tier,
		"trusted_base":             []string{"golang.org/x/tools/go/ssa v0.50.0", "sonicvc VC generator (/verif/vc)", "z3 5.1.0", "z3 4.8.12", "cvc5 1.0.3"},
		"functions_under_contract": fnNames,
		"backends":                 backends,
		"solver_seconds":           solverSecs,
		"samples":                  samples,
		"known_findings":           knownHit,
		"contracts_from":           srcl,
		"failed":                   failedSamples,
		"explanation":              "every obligation generated for this property from the SSA of /repo's working tree; obligations = discharged means all were proved unsat by at least one SMT back end. Obligations listed under known_findings are recorded defects of the repository: they are NOT proved and are not counted in either number",
	}
	ev := evidence{PropertyID: prop, Tier: tier, Seed: seed, Level: level, Coverage: cov, Assumptions: asm, WallS: time.Since(t0).Seconds(), Violations: violations}
	os.MkdirAll("/verif/evidence", 0o755)
	b, _ := json.MarshalIndent(ev, "", " ")
	os.WriteFile(evPath, b, 0o644)
	dep := ""
	if len(foreignHit) > 0 {
		dep = fmt.Sprintf(" (+%d in dependencies, reported by their own property)", len(foreignHit))
	}
	fmt.Printf("property %s: %d functions, %d obligations, %d discharged, %d known findings%s, %d violations, %.1fs\n", prop, len(fnNames), len(allObls), discharged, knownUnproved-len(foreignHit), dep, violations, time.Since(t0).Seconds())
	if violations > 0 {
		return 1
	}
	return 0
}

// vacuityOK: hyps at (at least one) return point are satisfiable together with its path condition.
func vacuityOK(fr *FuncResult, opt solveOpts) bool {
	if fr.Exec == nil || len(fr.Exec.rets) == 0 {
		return len(fr.Obls) > 0 && fr.Exec != nil && fr.Exec.noReturnOK
	}
	for _, r := range fr.Exec.rets {
		if r.st.pc.IsFalse() {
			continue
		}
		var as []*Term
		if r.hyps != nil {
			as = append(as, r.hyps...)
		} else {
			as = append(as, fr.Ctx.hyps[:r.nhyps]...)
		}
		as = append(as, r.st.pc)
		text, err := Query(ModeInt, as, nil)
		if err != nil {
			text, err = Query(ModeBV, as, nil)
			if err != nil {
				continue
			}
		}
		fileCounter++
		f := fmt.Sprintf("%s/vac%05d.smt2", opt.workdir, fileCounter)
		os.WriteFile(f, []byte(text), 0o644)
		r, _ := raceSolvers(f, 10, false)
		if !opt.keep {
			os.Remove(f)
		}
		if r.answer != "unsat" {
			// sat: reachable; unknown: not shown contradictory (only a definite unsat is vacuity)
			return true
		}
	}
	return false
}

// verifyUnderExclusion re-verifies the function of o with ¬except assumed and reports whether
// the obligation of the same name is then discharged.
func verifyUnderExclusion(P *Program, C *Contracts, o *Obligation, except string, opt solveOpts) bool {
	fn := P.Funcs[o.Fn]
	if fn == nil {
		return false
	}
	ex := NewExec(P, C, fn)
	x, err := ParseSpec("!(" + except + ")")
	if err != nil {
		fmt.Println("ERROR known-findings except:", err)
		return false
	}
	ex.extraRequires = append(ex.extraRequires, x)
	obls, err := ex.Verify()
	if err != nil {
		return false
	}
	for _, p := range obls {
		if p.Name == o.Name {
			prepareObligation(ex.ctx, p, ModeInt, opt)
			runObligation(p, opt)
			if p.Result != "unsat" {
				return false
			}
		}
	}
	return true
}

func writeReplayFile(path, prop string, o *Obligation, rep map[string]interface{}, reproduced bool) {
	m := map[string]interface{}{
		"property":      prop,
		"obligation":    shortKey(o.Fn) + "/" + o.Name,
		"function":      shortKey(o.Fn),
		"clause":        o.Clause,
		"at":            o.Pos,
		"solver_result": o.Result,
		"backend":       o.Backend,
		"solver_output": firstLines(o.Output, 40),
		"model":         o.Model,
		"reproduced":    reproduced,
		"replay":        rep,
	}
	b, _ := json.MarshalIndent(m, "", " ")
	os.WriteFile(path, b, 0o644)
}

// staticObligations: program-level checks that need no solver: fields declared immutable are
// stored to only by their constructors (this is what lets their values survive call-outs).
func staticObligations(P *Program, C *Contracts) []*Obligation {
	var out []*Obligation
	for _, gi := range C.GlobalInvs {
		bad := ""
		for _, k := range P.sortedFuncKeys() {
			fn := P.Funcs[k]
			if !isRepoFunc(fn) || fn.Blocks == nil || strings.HasPrefix(fn.Name(), "init") {
				continue
			}
			for _, b := range fn.Blocks {
				for _, ins := range b.Instrs {
					st, ok := ins.(*ssa.Store)
					if !ok {
						continue
					}
					root := st.Addr
					for {
						switch x := root.(type) {
						case *ssa.IndexAddr:
							root = x.X
							continue
						case *ssa.FieldAddr:
							root = x.X
							continue
						}
						break
					}
					if g, ok := root.(*ssa.Global); ok && g.Pkg.Pkg.Path() == gi.Pkg && g.Name() == gi.Global {
						bad = shortKey(k)
					}
				}
			}
		}
		o := &Obligation{Name: "globalinv/" + gi.Global, Kind: "immutable", Props: gi.Clause.Props, Clause: "package-level " + gi.Global + " is stored to only by init()", Fn: "program", Backend: "static", Result: "unsat", Goal: True, PC: True}
		if bad != "" {
			o.Result = "sat"
			o.Output = "stored to by " + bad
		}
		out = append(out, o)
	}
	if len(C.Immutable) == 0 {
		return out
	}
	dummyFn := (*ssa.Function)(nil)
	_ = dummyFn
	var anyFn *ssa.Function
	for _, f := range P.Funcs {
		if isRepoFunc(f) && f.Blocks != nil {
			anyFn = f
			break
		}
	}
	ex := NewExec(P, C, anyFn)
	fx := ex.fx()
	writers := map[string][]string{}
	for _, k := range P.sortedFuncKeys() {
		fn := P.Funcs[k]
		if !isRepoFunc(fn) || fn.Blocks == nil {
			continue
		}
		for _, b := range fn.Blocks {
			for _, ins := range b.Instrs {
				st, ok := ins.(*ssa.Store)
				if !ok {
					continue
				}
				func() {
					defer func() { recover() }()
					for _, lf := range fx.famsOfLoc(fx.locOf(st.Addr)) {
						base := lf.key
						if i := strings.Index(base, "#"); i >= 0 {
							base = base[:i]
						}
						if _, ok := C.Immutable[base]; ok {
							writers[base] = append(writers[base], k)
						}
					}
				}()
			}
		}
	}
	var fields []string
	for f := range C.Immutable {
		fields = append(fields, f)
	}
	sort.Strings(fields)
	for _, f := range fields {
		spec := C.Immutable[f]
		bad := ""
		for _, w := range writers[f] {
			ok := false
			for _, c := range spec.Constructors {
				if strings.Contains(shortKey(w), c) {
					ok = true
				}
			}
			if !ok {
				bad = shortKey(w)
			}
		}
		o := &Obligation{Name: "immutable/" + f, Kind: "immutable", Props: spec.Props, Clause: "field " + f + " is stored to only by " + strings.Join(spec.Constructors, ", "), Fn: "program", Backend: "static", Result: "unsat", Goal: True, PC: True}
		if bad != "" {
			o.Result = "sat"
			o.Output = "stored to by " + bad
			fmt.Fprintln(os.Stderr, "immutable", f, "writers:", writers[f])
			o.Clause += " (violated by " + bad + ")"
		}
		out = append(out, o)
	}
	return out
}

var pathSuffixRe = regexp.MustCompile(`\.(p|e)[0-9]+`)

// normObl drops the path/edge numbering of an obligation name: a finding is identified by
// function, clause and return, not by the enumeration order of the paths that reach it.
func normObl(name string) string { return pathSuffixRe.ReplaceAllString(name, "") }

// contractDeps: functions under a (non-trusted) contract that the given functions call, directly
// or through code that is executed in place, transitively; the given ones excluded.
func contractDeps(P *Program, C *Contracts, roots []string) []string {
	have := map[string]bool{}
	for _, k := range roots {
		have[k] = true
	}
	var out []string
	seenFn := map[*ssa.Function]bool{}
	var walk func(fn *ssa.Function)
	visitCallee := func(callee *ssa.Function) {
		if callee == nil || callee.Blocks == nil {
			return
		}
		k := funcKey(callee)
		fc := C.lookup(k)
		if fc == nil || fc.Inline || fc.Pure {
			walk(callee) // executed in place: its callees are ours
			return
		}
		if fc.Trusted || fc.NoBody {
			return
		}
		key := k
		if C.Funcs[k] == nil {
			key = stripTypeArgs(k)
		}
		if _, isInst := P.Funcs[k]; isInst {
			key = k
		}
		if !have[key] {
			have[key] = true
			out = append(out, key)
			walk(callee)
		}
	}
	walk = func(fn *ssa.Function) {
		if fn == nil || seenFn[fn] {
			return
		}
		seenFn[fn] = true
		for _, b := range fn.Blocks {
			for _, ins := range b.Instrs {
				switch x := ins.(type) {
				case ssa.CallInstruction:
					if callee := x.Common().StaticCallee(); callee != nil {
						visitCallee(callee)
					}
				case *ssa.MakeClosure:
					if f, ok := x.Fn.(*ssa.Function); ok {
						visitCallee(f)
					}
				}
			}
		}
	}
	for _, k := range roots {
		if fn := P.Funcs[k]; fn != nil {
			walk(fn)
		} else {
			for ik, f := range P.Funcs {
				if stripTypeArgs(ik) == k {
					walk(f)
				}
			}
		}
	}
	sort.Strings(out)
	return out
}
