package main

import (
	"bytes"
	"context"
	"fmt"
	"math/big"
	"os"
	"os/exec"
	"path/filepath"
	"regexp"
	"strings"
	"sync"
	"time"
)

type qinst struct {
	q *QHyp
	t *Term
}

func famMatches(trig, fam string) bool {
	return fam == trig || strings.HasPrefix(fam, trig+".") || strings.HasPrefix(fam, trig+"#")
}

// instance builds (once) the instance of q for the given values. Well-formedness facts that
// evaluating the body assumes about the values it loads are part of the instance: they are
// stated long after the obligations that use the instance were generated.
func (q *QHyp) instance(c *VCtx, js []*Term) *Term {
	k := ""
	for _, j := range js {
		k += fmt.Sprintf("%d,", j.id)
	}
	if t, ok := q.cache[k]; ok {
		return t
	}
	var side []*Term
	saved := c.capture
	c.capture = &side
	t := q.body(js)
	c.capture = saved
	if len(side) > 0 {
		t = And(append([]*Term{t}, side...)...)
	}
	q.cache[k] = t
	return t
}

// assertsFor builds the assertion set of an obligation: hypotheses known at that point, path
// condition, negated goal, and instances of the universal hypotheses registered before it.
// Instantiation is E-matching on ground terms: every application of a memory symbol
// (address read) in the current assertion set triggers the hypotheses about that memory
// family; instances may contain further reads, so this is repeated for a few rounds.
func (c *VCtx) assertsFor(o *Obligation, seedAll bool, focused ...bool) []*Term {
	focus := len(focused) > 0 && focused[0]
	var as []*Term
	var qhyps []*QHyp
	if o.HypsX != nil {
		as = append(as, o.HypsX...)
		qhyps = o.QHypsX
	} else {
		as = append(as, c.hyps[:o.NHyps]...)
		qhyps = c.qhyps[:o.NQ]
	}
	as = append(as, o.PC)
	as = append(as, Not(o.Goal))
	if o.NQ == 0 {
		return as
	}
	visited := map[int]bool{}
	type rd struct {
		fam  string
		addr *Term
		wild bool // read of the goal itself: instantiates every hypothesis of its family
	}
	inGoal := false
	var pending []rd
	var walk func(t *Term)
	walk = func(t *Term) {
		if visited[t.id] {
			return
		}
		visited[t.id] = true
		for _, a := range t.Args {
			walk(a)
		}
		if t.Op == OApp && len(t.Args) == 1 {
			if fam, ok := c.mc.symFam[t.Name]; ok {
				pending = append(pending, rd{fam, t.Args[0], inGoal})
			}
		}
	}
	if seedAll {
		for _, a := range as {
			walk(a)
		}
	} else {
		// goal-directed: seed with the reads of the path condition and the goal only
		inGoal = true
		walk(o.Goal)
		inGoal = false
		walk(o.PC)
	}
	// candidate values per (hypothesis, variable)
	qstat := map[int]int{}
	defer func() {
		if os.Getenv("SONICVC_QSTAT") != "" && strings.Contains(o.Name, os.Getenv("SONICVC_QSTAT")) {
			fmt.Fprintf(os.Stderr, "QSTAT %s seedAll=%v asserts=%d\n", o.Name, seedAll, len(as))
			for _, q := range qhyps {
				if qstat[q.idx] > 0 {
					fmt.Fprintf(os.Stderr, "  %5d  #%d %.150s\n", qstat[q.idx], q.idx, q.desc)
				}
			}
		}
	}()
	// hypotheses assumed on a path that syntactically contradicts this obligation's path are
	// vacuous here (their instances are guarded by that path condition): skip them
	dead := map[int]bool{}
	for _, q := range qhyps {
		if q.pc != nil && !q.pc.IsTrue() && And(o.PC, q.pc).IsFalse() {
			dead[q.idx] = true
		}
	}
	cands := map[[2]int][]*Term{}
	candSeen := map[[3]int]bool{}
	total := 0
	for round := 0; round < c.rounds() && len(pending) > 0; round++ {
		cur := pending
		pending = nil
		var added []*Term
		for _, r := range cur {
			for _, q := range qhyps {
				if dead[q.idx] {
					continue
				}
				for vi, qts := range q.trigs {
					for _, qt := range qts {
						if !famMatches(qt.family, r.fam) {
							continue
						}
						// focused stage: only reads whose address is syntactically built on the
						// pattern's base pointer (same object) instantiate the hypothesis
						if focus && !r.wild && qt.base != nil && !sameBase(r.addr, qt.base) {
							continue
						}
						j := qt.solve(r.addr)
						ck := [3]int{q.idx, vi, j.id}
						if candSeen[ck] {
							continue
						}
						candSeen[ck] = true
						cands[[2]int{q.idx, vi}] = append(cands[[2]int{q.idx, vi}], j)
						if q.nvars == 1 {
							if inst := q.instance(c, []*Term{j}); !inst.IsTrue() {
								added = append(added, inst)
								qstat[q.idx]++
							}
							continue
						}
						// two variables: pair the new candidate with every candidate of the other
						other := cands[[2]int{q.idx, 1 - vi}]
						if len(other) > 24 {
							other = other[:24]
						}
						for _, o2 := range other {
							js := []*Term{j, o2}
							if vi == 1 {
								js = []*Term{o2, j}
							}
							if inst := q.instance(c, js); !inst.IsTrue() {
								added = append(added, inst)
								qstat[q.idx]++
							}
						}
					}
				}
			}
		}
		for _, t := range added {
			if total > 6000 {
				break
			}
			as = append(as, t)
			total++
			walk(t)
		}
		if total > 2500 {
			break
		}
	}
	return as
}

func (c *VCtx) rounds() int {
	if c.instRounds > 0 {
		return c.instRounds
	}
	if v := os.Getenv("SONICVC_ROUNDS"); v != "" {
		n := 0
		fmt.Sscanf(v, "%d", &n)
		if n > 0 {
			return n
		}
	}
	return 2
}

type solverSpec struct {
	name string
	argv func(file string, secs int) []string
}

var solvers = []solverSpec{
	{"z3-5.1", func(f string, s int) []string { return []string{"z3-new", fmt.Sprintf("-T:%d", s), f} }},
	{"z3-4.8", func(f string, s int) []string { return []string{"z3", fmt.Sprintf("-T:%d", s), f} }},
	{"cvc5", func(f string, s int) []string {
		return []string{"cvc5", "--incremental", fmt.Sprintf("--tlimit=%d", s*1000), f}
	}},
}

type solveResult struct {
	answer  string // unsat | sat | unknown
	backend string
	secs    float64
	output  string
}

func runSolver(sp solverSpec, file string, secs int) solveResult {
	return runSolverCtx(context.Background(), sp, file, secs)
}

func runSolverCtx(parent context.Context, sp solverSpec, file string, secs int) solveResult {
	ctx, cancel := context.WithTimeout(parent, time.Duration(secs+2)*time.Second)
	defer cancel()
	argv := sp.argv(file, secs)
	cmd := exec.CommandContext(ctx, argv[0], argv[1:]...)
	var out bytes.Buffer
	cmd.Stdout = &out
	cmd.Stderr = &out
	t0 := time.Now()
	_ = cmd.Run()
	el := time.Since(t0).Seconds()
	txt := out.String()
	first := strings.TrimSpace(strings.SplitN(txt, "\n", 2)[0])
	ans := "unknown"
	switch first {
	case "unsat":
		ans = "unsat"
	case "sat":
		ans = "sat"
	}
	return solveResult{ans, sp.name, el, txt}
}

// race: z3-new alone with a short budget first; then all back ends in parallel.
func raceSolvers(file string, secs int, all bool) (solveResult, []solveResult) {
	var tried []solveResult
	if !all {
		quick := 3
		if secs < quick {
			quick = secs
		}
		r := runSolver(solvers[0], file, quick)
		tried = append(tried, r)
		if r.answer != "unknown" {
			return r, tried
		}
	}
	ch := make(chan solveResult, len(solvers))
	// the losers of the race are stopped as soon as one back end has answered: left running
	// they would slow down every query that follows
	raceCtx, stopRace := context.WithCancel(context.Background())
	defer stopRace()
	for _, sp := range solvers {
		go func(sp solverSpec) { ch <- runSolverCtx(raceCtx, sp, file, secs) }(sp)
	}
	var best *solveResult
	for range solvers {
		r := <-ch
		tried = append(tried, r)
		if r.answer != "unknown" && (best == nil) {
			rr := r
			best = &rr
			if !all {
				// do not wait for the others (they are bounded by their own timeouts)
				return *best, tried
			}
		}
	}
	if best != nil {
		return *best, tried
	}
	return solveResult{answer: "unknown", backend: "all", output: tried[len(tried)-1].output}, tried
}

var valRe = regexp.MustCompile(`^\(\((.*)\)\)$`)

// parseValues pairs get-value outputs with the requested terms.
func parseValues(out string, names []string) map[string]string {
	res := map[string]string{}
	lines := strings.Split(out, "\n")
	i := 0
	for _, ln := range lines[1:] {
		ln = strings.TrimSpace(ln)
		if !strings.HasPrefix(ln, "((") {
			continue
		}
		if i >= len(names) {
			break
		}
		// ((term value))
		inner := strings.TrimSuffix(strings.TrimPrefix(ln, "(("), "))")
		// value is the last s-expression
		val := lastSexp(inner)
		res[names[i]] = normalizeValue(val)
		i++
	}
	return res
}

func lastSexp(s string) string {
	s = strings.TrimSpace(s)
	if strings.HasSuffix(s, ")") {
		depth := 0
		for i := len(s) - 1; i >= 0; i-- {
			switch s[i] {
			case ')':
				depth++
			case '(':
				depth--
				if depth == 0 {
					return s[i:]
				}
			}
		}
	}
	if i := strings.LastIndexAny(s, " \t"); i >= 0 {
		return s[i+1:]
	}
	return s
}

func normalizeValue(v string) string {
	v = strings.TrimSpace(v)
	if strings.HasPrefix(v, "(- ") {
		return "-" + strings.TrimSuffix(strings.TrimPrefix(v, "(- "), ")")
	}
	if strings.HasPrefix(v, "#x") {
		var n uint64
		fmt.Sscanf(v[2:], "%x", &n)
		return fmt.Sprintf("%d", n)
	}
	if strings.HasPrefix(v, "#b") {
		var n uint64
		for _, c := range v[2:] {
			n = n<<1 | uint64(c-'0')
		}
		return fmt.Sprintf("%d", n)
	}
	return v
}

// interesting terms whose model values are requested: free symbols and reads of the initial
// heap/memory families.
func interestingTerms(as []*Term) ([]*Term, []string) {
	seen := map[int]bool{}
	var ts []*Term
	var names []string
	var walk func(t *Term)
	walk = func(t *Term) {
		if seen[t.id] || len(ts) >= 400 {
			return
		}
		seen[t.id] = true
		for _, a := range t.Args {
			walk(a)
		}
		switch t.Op {
		case OVar:
			ts = append(ts, t)
			names = append(names, t.Name)
		case OApp:
			if strings.Contains(t.Name, "_0") && len(t.Args) == 1 && strings.HasSuffix(t.Name, "_0") {
				ts = append(ts, t)
				names = append(names, t.Name+"["+t.Args[0].String()+"]")
				if t.Args[0].Op != OVar && t.Args[0].Op != OConst {
					ts = append(ts, t.Args[0])
					names = append(names, "ARG:"+t.Args[0].String())
				}
			}
		}
	}
	for _, a := range as {
		walk(a)
	}
	if len(ts) > 400 {
		ts, names = ts[:400], names[:400]
	}
	return ts, names
}

type solveOpts struct {
	secs    int
	all     bool // all solvers must finish and agree
	workdir string
	keep    bool
}

var fileCounter int

// TSMu serialises everything that builds terms or renders queries (the term store and the
// printer's global switches are not thread-safe).
var TSMu sync.Mutex

// prepareObligation renders the query (sequential: the term store is not thread-safe).
func prepareObligation(c *VCtx, o *Obligation, mode Mode, opt solveOpts) {
	if o.Goal.IsTrue() || o.PC.IsFalse() {
		o.Result, o.Backend = "unsat", "simplifier"
		return
	}
	as := c.assertsFor(o, false)
	QueryGoalMarker = Not(o.Goal)
	gv, names := interestingTerms(as)
	// stage A: a goal of the form  A ==> B  (or a conjunction of such) holds trivially on a path
	// where A is impossible; that is a much smaller question than the goal itself
	if ants := antecedents(o.Goal); len(ants) > 0 {
		modeA := mode
		o.lazyAnte = func() {
			o2 := *o
			o2.Goal = Not(Or(ants...))
			if !o2.Goal.IsTrue() {
				asA := c.assertsFor(&o2, false, true)
				if textA, errA := Query(modeA, asA, nil); errA == nil && len(textA) < 40<<20 {
					fileCounter++
					fn := filepath.Join(opt.workdir, fmt.Sprintf("q%05d_ante.smt2", fileCounter))
					os.WriteFile(fn, []byte(textA), 0o644)
					o.anteFile = fn
				}
			}
		}
	}
	if o.NQ > 0 {
		// stage F: hypotheses instantiated only on reads of the object their pattern names
		if asF := c.assertsFor(o, false, true); len(asF)*10 < len(as)*8 {
			for _, abs := range []bool{true, false} {
				AbstractBits = abs && mode == ModeInt
				if textF, errF := Query(mode, asF, nil); errF == nil && len(textF) < 40<<20 && (!abs || QueryUsedAbstraction) {
					fileCounter++
					fn := filepath.Join(opt.workdir, fmt.Sprintf("q%05d_focus.smt2", fileCounter))
					os.WriteFile(fn, []byte(textF), 0o644)
					o.FocusFiles = append(o.FocusFiles, fn)
				}
			}
			AbstractBits = false
		}
	}
	// stage S: only the hypotheses that share uncommon symbols with the goal (two hops). Fewer
	// hypotheses can only make the query weaker, so an unsat answer stands.
	if len(as) > 150 {
		var base []*Term
		if o.NQ > 0 {
			base = c.assertsFor(o, false, true)
		} else {
			base = as
		}
		if sl := sliceRelevant(base, o); len(sl)*10 < len(base)*7 {
			for _, abs := range []bool{true, false} {
				AbstractBits = abs && mode == ModeInt
				if textS, errS := Query(mode, sl, nil); errS == nil && len(textS) < 40<<20 && (!abs || QueryUsedAbstraction) {
					fileCounter++
					fn := filepath.Join(opt.workdir, fmt.Sprintf("q%05d_slice.smt2", fileCounter))
					os.WriteFile(fn, []byte(textS), 0o644)
					o.FocusFiles = append(o.FocusFiles, fn)
				}
			}
			AbstractBits = false
		}
	}
	if mode == ModeInt {
		// stage 0: bitwise operators on two variables abstracted to uninterpreted functions
		AbstractBits = true
		if textA, errA := Query(mode, as, nil); errA == nil && QueryUsedAbstraction && len(textA) < 40<<20 {
			fileCounter++
			o.AbstractFile = filepath.Join(opt.workdir, fmt.Sprintf("q%05d_abs.smt2", fileCounter))
			os.WriteFile(o.AbstractFile, []byte(textA), 0o644)
		}
		AbstractBits = false
	}
	text, err := Query(mode, as, gv)
	if o.NQ > 0 {
		// fallback with every read of every hypothesis as a trigger (rendered and used only
		// if the goal-directed query is not unsat)
		modeF, nAs := mode, len(as)
		o.lazyFull = func() {
			asFull := c.assertsFor(o, true)
			if len(asFull) > nAs {
				gvF, namesF := interestingTerms(asFull)
				m2 := modeF
				textF, errF := Query(m2, asFull, gvF)
				if errF != nil && strings.Contains(errF.Error(), "needs bv mode") {
					m2 = ModeBV
					textF, errF = Query(m2, asFull, gvF)
				}
				if errF == nil && len(textF) < 40<<20 {
					fileCounter++
					o.FullFile = filepath.Join(opt.workdir, fmt.Sprintf("q%05d_full.smt2", fileCounter))
					os.WriteFile(o.FullFile, []byte(textF), 0o644)
					o.fullNames = namesF
				}
			}
		}
	}
	if err != nil && mode == ModeInt && strings.Contains(err.Error(), "needs bv mode") {
		mode = ModeBV
		text, err = Query(mode, as, gv)
	}
	if err != nil {
		o.Result = "error"
		o.Output = err.Error()
		return
	}
	if len(text) > 40<<20 {
		o.Result = "error"
		o.Output = fmt.Sprintf("query too large (%d bytes)", len(text))
		return
	}
	fileCounter++
	nm := sanitize(o.Name)
	if len(nm) > 80 {
		nm = nm[:80]
	}
	file := filepath.Join(opt.workdir, fmt.Sprintf("q%05d_%s.smt2", fileCounter, nm))
	if err := os.WriteFile(file, []byte(text), 0o644); err != nil {
		o.Result = "error"
		o.Output = err.Error()
		return
	}
	o.QueryFile = file
	o.valNames = names
	o.bv = mode == ModeBV
	// a second query that additionally asks for small slice capacities, so that a model can be
	// rebuilt as a real Go value in the replay (rendered only when the goal-directed query is sat)
	modeS := mode
	o.lazySmall = func() {
		small := append([]*Term{}, as...)
		for i, t := range gv {
			if t.Sort.Kind == SInt && (strings.Contains(names[i], "_cap_0[") || strings.Contains(names[i], ".cap!")) {
				small = append(small, Le(t, Const(big.NewInt(4096), t.Sort)))
			}
		}
		if len(small) > len(as) {
			if text2, err := Query(modeS, small, gv); err == nil {
				o.SmallFile = strings.TrimSuffix(file, ".smt2") + "_small.smt2"
				os.WriteFile(o.SmallFile, []byte(text2), 0o644)
			}
		}
	}
}

// runObligation runs the solvers on a prepared obligation (safe to call concurrently).
func runObligation(o *Obligation, opt solveOpts) {
	if o.Result != "" {
		return
	}
	t0 := time.Now()
	defer func() { o.Wall = time.Since(t0).Seconds() }()
	cleanup := func() {
		if !opt.keep {
			for _, f := range append([]string{o.AbstractFile, o.QueryFile, o.SmallFile, o.FullFile, o.anteFile}, o.FocusFiles...) {
				if f != "" {
					os.Remove(f)
				}
			}
		}
	}
	for _, ff := range o.FocusFiles {
		quick := opt.secs
		if quick > 10 {
			quick = 10
		}
		if rf, _ := raceSolvers(ff, quick, false); rf.answer == "unsat" {
			o.Result, o.Backend, o.Secs, o.Output = "unsat", rf.backend+"/focus", rf.secs, rf.output
			cleanup()
			return
		}
	}
	if !opt.keep {
		for _, ff := range o.FocusFiles {
			os.Remove(ff)
		}
	}
	if o.AbstractFile != "" {
		quick := opt.secs
		if quick > 10 {
			quick = 10
		}
		ra, _ := raceSolvers(o.AbstractFile, quick, false)
		if !opt.keep {
			os.Remove(o.AbstractFile)
		}
		if ra.answer == "unsat" {
			o.Result, o.Backend, o.Secs, o.Output = "unsat", ra.backend+"/abs", ra.secs, ra.output
			cleanup()
			return
		}
	}
	best, tried := raceSolvers(o.QueryFile, opt.secs, opt.all)
	if best.answer != "unsat" && o.lazyFull != nil {
		TSMu.Lock()
		o.lazyFull()
		TSMu.Unlock()
	}
	if best.answer != "unsat" && o.FullFile != "" {
		b2, t2 := raceSolvers(o.FullFile, opt.secs, opt.all)
		b2.secs += best.secs
		if b2.answer == "unsat" || b2.answer == "sat" || best.answer == "unknown" {
			if b2.answer == "sat" || best.answer != "sat" || b2.answer == "unsat" {
				best, tried = b2, t2
				o.valNames = o.fullNames
				o.SmallFile = ""
			}
		}
	}
	if o.FullFile != "" && !opt.keep {
		os.Remove(o.FullFile)
	}
	if best.answer == "unknown" && o.lazyAnte != nil {
		TSMu.Lock()
		o.lazyAnte()
		TSMu.Unlock()
	}
	if best.answer == "unknown" && o.anteFile != "" {
		// last resort: the antecedent of the goal is impossible on this path
		if ra, _ := raceSolvers(o.anteFile, opt.secs, false); ra.answer == "unsat" {
			best = ra
			best.backend += "/ante"
		}
	}
	if o.anteFile != "" && !opt.keep {
		os.Remove(o.anteFile)
	}
	o.Result, o.Backend, o.Secs, o.Output = best.answer, best.backend, best.secs, best.output
	if o.bv {
		o.Backend += "/bv"
	}
	if opt.all {
		for _, t := range tried {
			if t.answer != "unknown" && t.answer != best.answer {
				o.Result = "disagree"
				o.Output = fmt.Sprintf("%s says %s, %s says %s", best.backend, best.answer, t.backend, t.answer)
			}
		}
	}
	if o.Result == "sat" {
		o.Model = parseValues(best.output, o.valNames)
		if o.SmallFile == "" && o.lazySmall != nil && o.FullFile == "" {
			TSMu.Lock()
			o.lazySmall()
			TSMu.Unlock()
		}
		if o.SmallFile != "" {
			if r2, _ := raceSolvers(o.SmallFile, opt.secs, false); r2.answer == "sat" {
				o.Model = parseValues(r2.output, o.valNames)
			}
		}
	}
	if o.SmallFile != "" && !opt.keep {
		os.Remove(o.SmallFile)
	}
	if !opt.keep && o.Result == "unsat" {
		os.Remove(o.QueryFile)
	}
}

// addrAtoms flattens an address expression over + and - into its non-constant leaves.
func addrAtoms(t *Term, out map[int]bool) {
	switch t.Op {
	case OAddNW, OAdd, OSubNW, OSub:
		for _, a := range t.Args {
			addrAtoms(a, out)
		}
	case OConst:
	default:
		out[t.id] = true
	}
}

// sameBase: every leaf of the base pointer occurs among the leaves of the address.
func sameBase(addr, base *Term) bool {
	ba := map[int]bool{}
	addrAtoms(base, ba)
	if len(ba) == 0 {
		return true
	}
	aa := map[int]bool{}
	addrAtoms(addr, aa)
	for id := range ba {
		if !aa[id] {
			return false
		}
	}
	return true
}

// antecedents: if g is  A ==> B  or a conjunction of implications, their antecedents.
func antecedents(g *Term) []*Term {
	switch g.Op {
	case OImp:
		return []*Term{g.Args[0]}
	case OAnd:
		var out []*Term
		for _, a := range g.Args {
			if a.Op != OImp {
				return nil
			}
			out = append(out, a.Args[0])
		}
		return out
	}
	return nil
}

// runObligationAgain re-runs every stage of an already rendered obligation with new limits.
func runObligationAgain(o *Obligation, opt solveOpts) {
	var files []string
	files = append(files, o.FocusFiles...)
	if o.AbstractFile != "" {
		files = append(files, o.AbstractFile)
	}
	files = append(files, o.QueryFile)
	t0 := time.Now()
	last := solveResult{answer: "unknown", backend: "all"}
	for _, f := range files {
		if _, err := os.Stat(f); err != nil {
			continue
		}
		r, _ := raceSolvers(f, opt.secs, false)
		definitive := f == o.QueryFile || f == o.FullFile
		if r.answer == "unsat" || (r.answer == "sat" && definitive) {
			last = r
			if r.answer == "unsat" {
				break
			}
			if f == o.QueryFile && o.FullFile == "" {
				break
			}
		} else if r.answer == "unknown" {
			last.output = r.output
		}
	}
	o.Result, o.Backend, o.Secs, o.Output = last.answer, last.backend+"/retry", last.secs, last.output
	o.Wall += time.Since(t0).Seconds()
	if o.Result == "sat" {
		o.Model = parseValues(last.output, o.valNames)
	}
}

// termSymbols collects the uninterpreted symbols (variables, applications) of t.
func termSymbols(t *Term, seen map[int]bool, out map[string]bool) {
	if seen[t.id] {
		return
	}
	seen[t.id] = true
	if t.Op == OVar || t.Op == OApp {
		out[t.Name] = true
	}
	for _, a := range t.Args {
		termSymbols(a, seen, out)
	}
}

// sliceRelevant keeps the path condition, the negated goal and the assertions reachable from
// the goal's symbols within two hops, not counting symbols that occur almost everywhere.
func sliceRelevant(as []*Term, o *Obligation) []*Term {
	ng := Not(o.Goal)
	syms := make([]map[string]bool, len(as))
	freq := map[string]int{}
	for i, a := range as {
		syms[i] = map[string]bool{}
		termSymbols(a, map[int]bool{}, syms[i])
		for k := range syms[i] {
			freq[k]++
		}
	}
	common := func(k string) bool { return freq[k]*4 > len(as) }
	rel := map[string]bool{}
	keep := make([]bool, len(as))
	for i, a := range as {
		if a == ng || a == o.PC {
			keep[i] = true
			for k := range syms[i] {
				rel[k] = true
			}
		}
	}
	for hop := 0; hop < 2; hop++ {
		add := map[string]bool{}
		for i := range as {
			if keep[i] {
				continue
			}
			for k := range syms[i] {
				if rel[k] && !common(k) {
					keep[i] = true
					break
				}
			}
			if keep[i] {
				for k := range syms[i] {
					add[k] = true
				}
			}
		}
		for k := range add {
			rel[k] = true
		}
	}
	var out []*Term
	for i, a := range as {
		if keep[i] || len(syms[i]) == 0 {
			out = append(out, a)
		}
	}
	return out
}
