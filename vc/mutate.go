package main

// Mutation sampling for the thorough tier (a sensitivity report, never gating): small
// syntactic changes inside the functions a property's check covers - the kind of slip a code
// change introduces - are generated from the real source; thorough.sh applies each one to a
// scratch copy of the repository and records whether the property's check notices it.

import (
	"bytes"
	"encoding/json"
	"fmt"
	"go/ast"
	goprinter "go/printer"
	"go/token"
	"math/rand"
	"os"
	"sort"
	"strconv"
	"strings"

	"golang.org/x/tools/go/ssa"
)

type mutant struct {
	File   string `json:"file"` // path relative to the repository
	Func   string `json:"func"`
	Line   int    `json:"line"`
	What   string `json:"what"`
	Source string `json:"source"` // whole mutated file
}

var opSwap = map[token.Token]token.Token{
	token.LSS: token.LEQ, token.LEQ: token.LSS, token.GTR: token.GEQ, token.GEQ: token.GTR,
	token.EQL: token.NEQ, token.NEQ: token.EQL, token.ADD: token.SUB, token.SUB: token.ADD,
	token.LAND: token.LOR, token.LOR: token.LAND,
}

func cmdMutants(args []string) int {
	repo, mirror, prop, out := "/repo", "/verif/contracts", "", ""
	n, seed := 12, int64(1)
	for i := 0; i < len(args); i++ {
		switch args[i] {
		case "--repo":
			i++
			repo = args[i]
		case "--property":
			i++
			prop = args[i]
		case "--n":
			i++
			n, _ = strconv.Atoi(args[i])
		case "--seed":
			i++
			s, _ := strconv.Atoi(args[i])
			seed = int64(s)
		case "--out":
			i++
			out = args[i]
		}
	}
	if prop == "" || out == "" {
		fmt.Fprintln(os.Stderr, "usage: sonicvc mutants --property Cxx --out file.json [--n 12] [--seed 1] [--repo dir]")
		return 2
	}
	P, err := LoadProgram(repo)
	if err != nil {
		fmt.Println("ERROR", err)
		return 2
	}
	C, err := LoadContracts(repo, mirror)
	if err != nil {
		fmt.Println("ERROR", err)
		return 2
	}
	// the functions whose contracts carry the property (not the dependency closure: a mutant
	// there is the business of the property that owns the function)
	var fns []*ssa.Function
	seenFn := map[*ssa.Function]bool{}
	for k, fc := range C.Funcs {
		if fc.Trusted || fc.NoBody || strings.HasPrefix(k, "iface:") || strings.HasPrefix(k, "fnparam:") || strings.HasPrefix(k, "ext:") {
			continue
		}
		if !contractHasProp(fc, prop) {
			continue
		}
		for ik, f := range P.Funcs {
			if (ik == k || stripTypeArgs(ik) == k) && f.Syntax() != nil {
				g := f
				if g.Origin() != nil {
					g = g.Origin()
				}
				if !seenFn[g] {
					seenFn[g] = true
					fns = append(fns, g)
				}
			}
		}
	}
	sort.Slice(fns, func(i, j int) bool { return funcKey(fns[i]) < funcKey(fns[j]) })
	type point struct {
		fn    *ssa.Function
		node  ast.Node
		apply func() (undo func(), what string)
	}
	var points []point
	for _, fn := range fns {
		fn := fn
		var body *ast.BlockStmt
		switch d := fn.Syntax().(type) {
		case *ast.FuncDecl:
			body = d.Body
		case *ast.FuncLit:
			body = d.Body
		}
		if body == nil {
			continue
		}
		ast.Inspect(body, func(nd ast.Node) bool {
			switch x := nd.(type) {
			case *ast.FuncLit:
				return false // closures are functions of their own
			case *ast.BinaryExpr:
				if to, ok := opSwap[x.Op]; ok {
					points = append(points, point{fn, x, func() (func(), string) {
						from := x.Op
						x.Op = to
						return func() { x.Op = from }, fmt.Sprintf("%s -> %s", from, to)
					}})
				}
			case *ast.BasicLit:
				if x.Kind == token.INT {
					if v, perr := strconv.ParseInt(x.Value, 0, 64); perr == nil && v >= 0 && v < 1<<20 {
						points = append(points, point{fn, x, func() (func(), string) {
							old := x.Value
							x.Value = strconv.FormatInt(v+1, 10)
							return func() { x.Value = old }, fmt.Sprintf("constant %s -> %d", old, v+1)
						}})
					}
				}
			case *ast.IncDecStmt:
				points = append(points, point{fn, x, func() (func(), string) {
					old := x.Tok
					if old == token.INC {
						x.Tok = token.DEC
					} else {
						x.Tok = token.INC
					}
					return func() { x.Tok = old }, fmt.Sprintf("%s -> %s", old, x.Tok)
				}})
			case *ast.UnaryExpr:
				if x.Op == token.NOT {
					points = append(points, point{fn, x, func() (func(), string) {
						// !e -> e : replace the operand by a double negation's inverse
						old := x.X
						x.X = &ast.UnaryExpr{Op: token.NOT, X: &ast.ParenExpr{X: old}}
						return func() { x.X = old }, "negation dropped"
					}})
				}
			case *ast.ExprStmt:
				if _, isCall := x.X.(*ast.CallExpr); isCall {
					points = append(points, point{fn, x, func() (func(), string) {
						old := x.X
						x.X = &ast.CallExpr{Fun: &ast.FuncLit{Type: &ast.FuncType{Params: &ast.FieldList{}}, Body: &ast.BlockStmt{}}}
						return func() { x.X = old }, "call statement removed"
					}})
				}
			}
			return true
		})
	}
	if len(points) == 0 {
		fmt.Println("no mutation points")
		return 2
	}
	rng := rand.New(rand.NewSource(seed))
	rng.Shuffle(len(points), func(i, j int) { points[i], points[j] = points[j], points[i] })
	if len(points) > n {
		points = points[:n]
	}
	var outList []mutant
	for _, pt := range points {
		pos := P.Prog.Fset.Position(pt.node.Pos())
		var file *ast.File
		for _, pk := range P.Pkgs {
			for _, f := range pk.Syntax {
				if P.Prog.Fset.Position(f.Pos()).Filename == pos.Filename {
					file = f
				}
			}
		}
		if file == nil {
			continue
		}
		undo, what := pt.apply()
		var buf bytes.Buffer
		err := (&goprinter.Config{Mode: goprinter.UseSpaces | goprinter.TabIndent, Tabwidth: 8}).Fprint(&buf, P.Prog.Fset, file)
		undo()
		if err != nil {
			continue
		}
		rel := strings.TrimPrefix(pos.Filename, strings.TrimSuffix(repo, "/")+"/")
		outList = append(outList, mutant{File: rel, Func: shortKey(funcKey(pt.fn)), Line: pos.Line, What: what, Source: buf.String()})
	}
	b, _ := json.MarshalIndent(outList, "", " ")
	if err := os.WriteFile(out, b, 0o644); err != nil {
		fmt.Println("ERROR", err)
		return 2
	}
	fmt.Printf("%d mutants of %d functions written to %s\n", len(outList), len(fns), out)
	return 0
}
