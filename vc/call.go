package main

import (
	"fmt"
	"go/token"
	"go/types"
	"sort"
	"strings"

	"golang.org/x/tools/go/ssa"
)

var sharedFx *effects

func (e *Exec) fx() *effects {
	if sharedFx == nil || sharedFx.P != e.P || sharedFx.C != e.C {
		sharedFx = &effects{P: e.P, C: e.C, memo: map[*ssa.Function]*WriteSet{}, inprg: map[*ssa.Function]bool{}}
	}
	sharedFx.e = e
	return sharedFx
}

func (e *Exec) initGhost(st *State) {}

func (e *Exec) ghostGet(st *State, name string) *Term {
	if t, ok := st.ghost[name]; ok {
		return t
	}
	return ConstI(0, I64)
}

func (e *Exec) ghostAdd(st *State, name string, d int64) {
	st.ghost[name] = Add(e.ghostGet(st, name), ConstI(d, I64))
}

// doCall executes a call instruction and returns its value.
func (e *Exec) doCall(ins ssa.Instruction, c *ssa.CallCommon, st *State) Value {
	var args []Value
	for _, a := range c.Args {
		args = append(args, e.val(a))
	}
	resT := c.Signature().Results()
	if c.IsInvoke() {
		recv, _ := e.val(c.Value).(IfaceV)
		if recv.Dyn != nil {
			// statically known dynamic type: resolve the method
			ms := e.P.Prog.MethodSets.MethodSet(recv.DynT)
			if sel := ms.Lookup(c.Method.Pkg(), c.Method.Name()); sel != nil {
				if fn := e.P.Prog.MethodValue(sel); fn != nil {
					return e.staticCall(ins, fn, append([]Value{recv.Dyn}, args...), nil, st)
				}
			}
		}
		e.safe("nil", st, Ne(recv.ID, ConstI(0, Ref)), ins.Pos())
		if pv, ok := e.devirt(recv, c.Value.Type()); ok {
			ms := e.P.Prog.MethodSets.MethodSet(types.NewPointer(pv.T))
			if sel := ms.Lookup(c.Method.Pkg(), c.Method.Name()); sel != nil {
				if fn := e.P.Prog.MethodValue(sel); fn != nil {
					e.ctx.assumes["interface "+types.TypeString(c.Value.Type(), nil)+" has the single implementation *"+typeName(pv.T)]++
					return e.staticCall(ins, fn, append([]Value{pv}, args...), nil, st)
				}
			}
		}
		key := ifaceMethodKey(c)
		if fc := e.C.Funcs[key]; fc != nil {
			fc.Used = true
			return e.contractCall(ins, key, fc, c.Method.Type().(*types.Signature), append([]Value{recv}, args...), append([]string{"recv"}, sigParamNames(c.Method.Type().(*types.Signature))...), st, nil)
		}
		return e.callOut(ins, "interface method "+key, resT, st)
	}
	switch callee := c.Value.(type) {
	case *ssa.Builtin:
		return e.builtin(ins, callee.Name(), c, args, st)
	case *ssa.Function:
		return e.staticCall(ins, callee, args, nil, st)
	case *ssa.MakeClosure:
		fv := e.val(callee).(FuncV)
		return e.staticCall(ins, fv.Static, args, fv.Bindings, st)
	}
	fv, ok := e.val(c.Value).(FuncV)
	if ok && fv.Static != nil {
		return e.staticCall(ins, fv.Static, args, fv.Bindings, st)
	}
	e.safe("nil", st, Ne(fv.ID, ConstI(0, Ref)), ins.Pos())
	return e.funcValueCall(ins, c, fv, args, st)
}

func sigParamNames(sig *types.Signature) []string {
	var out []string
	for i := 0; i < sig.Params().Len(); i++ {
		out = append(out, sig.Params().At(i).Name())
	}
	return out
}

func (e *Exec) resultValue(name string, resT *types.Tuple, st *State) Value {
	switch resT.Len() {
	case 0:
		return nil
	case 1:
		return e.freshValue(name, resT.At(0).Type(), st)
	}
	return e.freshValue(name, resT, st)
}

// callOut: a call into code we know nothing about. Everything reachable may change.
func (e *Exec) callOut(ins ssa.Instruction, what string, resT *types.Tuple, st *State) Value {
	e.ctx.notes = append(e.ctx.notes, fmt.Sprintf("%s: call-out (%s): heap and memory havocked", shortKey(e.topName), what))
	e.havocKeepGhost(st, what)
	return e.resultValue("ret", resT, st)
}

// funcValueCall: call through a function value whose target is unknown.
// invoked ledger: ghost map from function identity to the number of times this activation
// completed (invoked or handed on) that function value.
const invFam = "ghost:invoked"

func (e *Exec) invGet(st *State, id *Term) *Term {
	return e.ctx.read(st, invFam, I64, id)
}

func (e *Exec) invBump(st *State, id *Term) {
	e.invBumpIf(st, id, True)
}

func (e *Exec) invBumpIf(st *State, id *Term, cond *Term) {
	cur := e.invGet(st, id)
	e.ctx.write(st, invFam, id, Add(cur, Ite(cond, ConstI(1, I64), ConstI(0, I64))))
}

// handOnIDs: a function value is passed where the callee promises exactly-once completion.
// The value counts as completed once; if it is a closure whose contract completes one of its
// captured function values exactly once per invocation, so does that captured value. The
// identities are computed in the state before the call.
func (e *Exec) handOnIDs(pre *State, v Value, depth int) []*Term {
	fv, ok := v.(FuncV)
	if !ok || depth > 4 {
		return nil
	}
	ids := []*Term{fv.ID}
	if fv.Static == nil {
		return ids
	}
	wfc := e.C.lookup(funcKey(fv.Static))
	if wfc == nil {
		return ids
	}
	for _, cs := range wfc.Consumes {
		if cs.Unless != nil {
			continue
		}
		for i, free := range fv.Static.FreeVars {
			if free.Name() == cs.Name && i < len(fv.Bindings) {
				if pv, ok := fv.Bindings[i].(PtrV); ok {
					ids = append(ids, e.handOnIDs(pre, e.loadAt(pre, pv), depth+1)...)
				}
			}
		}
	}
	return ids
}

// funcValueCall: call through a function value whose target is unknown.
func (e *Exec) funcValueCall(ins ssa.Instruction, c *ssa.CallCommon, fv FuncV, args []Value, st *State) Value {
	name := calleeText(c)
	if dn := debugName(ins, c.Value); dn != "" {
		name = dn
	}
	e.invBump(st, fv.ID)
	if fc := e.C.lookup("fnparam:" + funcKey(e.fn) + "." + name); fc != nil {
		fc.Used = true
		return e.contractCall(ins, "fnparam:"+funcKey(e.fn)+"."+name, fc, c.Signature(), args, sigParamNames(c.Signature()), st, nil)
	}
	e.siteAsserts(ins, name, args, st, "before", nil)
	v := e.callOut(ins, "function value "+name, c.Signature().Results(), st)
	e.siteAsserts(ins, name, args, st, "after", v)
	return v
}

// calleeText: a printable name for the callee expression of a dynamic call.
func calleeText(c *ssa.CallCommon) string {
	switch v := c.Value.(type) {
	case *ssa.Parameter:
		return v.Name()
	case *ssa.FreeVar:
		return v.Name()
	case *ssa.UnOp:
		// load of a captured variable cell or of a field
		switch x := v.X.(type) {
		case *ssa.FreeVar:
			return x.Name()
		case *ssa.Alloc:
			return x.Comment
		case *ssa.FieldAddr:
			if st, ok := structOf(x.X.Type().(*types.Pointer).Elem()); ok {
				return st.Field(x.Field).Name()
			}
		case *ssa.IndexAddr:
			if fa, ok := x.X.(*ssa.FieldAddr); ok {
				if st, ok := structOf(fa.X.Type().(*types.Pointer).Elem()); ok {
					return st.Field(fa.Field).Name()
				}
			}
		}
	}
	return c.Value.Name()
}

func (e *Exec) staticCall(ins ssa.Instruction, fn *ssa.Function, args []Value, bindings []Value, st *State) Value {
	key := funcKey(fn)
	// a method with a pointer receiver is entered with a non-nil receiver (callees assume it)
	if fn.Signature.Recv() != nil && len(args) > 0 && isRepoFunc(fn) {
		if pv, ok := args[0].(PtrV); ok {
			e.safe("nil", st, Ne(pv.Addr, ConstI(0, Ref)), ins.Pos())
		}
	}
	if isSpecialKey(key) {
		e.siteAsserts(ins, key, args, st, "before", nil)
		if v, ok := e.specialCall(ins, key, fn, args, st); ok {
			e.siteAsserts(ins, key, args, st, "after", v)
			return v
		}
	}
	if isMutexKey(key) {
		e.siteAsserts(ins, key, args, st, "before", nil)
		if e.mutexCall(ins, key, args, st) {
			e.siteAsserts(ins, key, args, st, "after", nil)
			return nil
		}
	}
	resT := fn.Signature.Results()
	fc := e.C.lookup(key)
	if fc == nil && fn.Origin() != nil {
		fc = e.C.lookup(funcKey(fn.Origin()))
	}
	pack := func(res []Value) Value {
		switch len(res) {
		case 0:
			return nil
		case 1:
			return res[0]
		}
		return TupleV(res)
	}
	forceInline := false
	if rfc := e.root().fc; rfc != nil {
		for _, pat := range rfc.InlineCalls {
			if strings.Contains(key, pat) {
				forceInline = true
			}
		}
	}
	if fc != nil && !fc.Inline && !fc.Pure && !forceInline {
		fc.Used = true
		names := []string{}
		for _, p := range fn.Params {
			names = append(names, p.Name())
		}
		allArgs := args
		for i, fvv := range fn.FreeVars {
			names = append(names, fvv.Name())
			if i < len(bindings) {
				allArgs = append(allArgs, bindings[i])
			}
		}
		return e.contractCall(ins, key, fc, fn.Signature, allArgs, names, st, fn)
	}
	if fn.Blocks != nil && e.depth < 10 && (fc != nil || e.autoInline(fn)) {
		e.siteAsserts(ins, key, args, st, "before", nil)
		res := pack(e.inlineCallB(fn, args, bindings, st, e.specMode))
		e.siteAsserts(ins, key, args, st, "after", res)
		return res
	}
	// no contract, not inlinable
	ws := e.fx().ofStatic(fn, nil)
	e.siteAsserts(ins, key, args, st, "before", nil)
	if ws.Top {
		v := e.callOut(ins, "call to "+shortKey(key)+" (no contract)", resT, st)
		e.siteAsserts(ins, key, args, st, "after", v)
		return v
	}
	if !isRepoFunc(fn) {
		e.ctx.assumes["external "+shortKey(key)+" writes only through its arguments; results unconstrained"]++
	} else {
		e.ctx.notes = append(e.ctx.notes, fmt.Sprintf("%s: callee %s has no contract: its write set is havocked, results unconstrained", shortKey(e.topName), shortKey(key)))
	}
	e.havocSet(st, ws, "call")
	v := e.resultValue("ret."+fn.Name(), resT, st)
	e.siteAsserts(ins, key, args, st, "after", v)
	return v
}

func (e *Exec) autoInline(fn *ssa.Function) bool {
	if !isRepoFunc(fn) && !inlinableExternal(fn) {
		return false
	}
	n := 0
	for _, b := range fn.Blocks {
		for _, s := range b.Succs {
			if s.Dominates(b) {
				return false // loop
			}
		}
		n += len(b.Instrs)
	}
	if n > 400 {
		return false
	}
	// recursion guard
	for x := e; x != nil; x = x.parent {
		if x.fn == fn {
			return false
		}
	}
	return true
}

func (e *Exec) inlineCall(fn *ssa.Function, args []Value, st *State, spec bool) []Value {
	return e.inlineCallB(fn, args, nil, st, spec)
}

// inlineCallB executes fn's body in place. st is updated to the merged return state.
func (e *Exec) inlineCallB(fn *ssa.Function, args []Value, bindings []Value, st *State, spec bool) []Value {
	ch := &Exec{P: e.P, C: e.C, fn: fn, ctx: e.ctx, entry: e.entry, vals: map[ssa.Value]Value{}, params: map[string]Value{}, lets: map[string]Value{},
		parent: e, depth: e.depth + 1, topName: e.topName, counts: e.counts, defSeen: map[ssa.Value]bool{}, finalCells: map[ssa.Value]Value{}, remembered: map[string]bool{}, callOrd: map[string]int{}, specMode: spec || e.specMode,
		prefix: e.prefix + "in:" + shortKey(funcKey(fn)) + "/"}
	ch.fc = e.C.lookup(funcKey(fn))
	if len(args) != len(fn.Params) {
		e.errorf("inline %s: %d args for %d params", fn, len(args), len(fn.Params))
	}
	for i, p := range fn.Params {
		ch.vals[p] = args[i]
		ch.params[p.Name()] = args[i]
	}
	for i, fv := range fn.FreeVars {
		if i < len(bindings) {
			ch.vals[fv] = bindings[i]
			ch.params[fv.Name()] = bindings[i]
		} else {
			v := ch.freshValue(fv.Name(), fv.Type(), st)
			ch.vals[fv] = v
			ch.params[fv.Name()] = v
		}
	}
	ch.arrBases = e.arrBases
	rp := ch.run(st.clone(), args)
	e.arrBases = ch.arrBases
	*st = *rp.st
	return rp.vals
}

// contractCall: modular call. Check requires, havoc the write set, assume ensures.
func (e *Exec) contractCall(ins ssa.Instruction, key string, fc *FuncContract, sig *types.Signature, args []Value, names []string, st *State, fn *ssa.Function) Value {
	root := e.root()
	root.callOrd[key]++
	ord := root.callOrd[key]
	e.siteAsserts(ins, key, args, st, "before", nil)
	pre := st.clone()
	env := e.newEnv(st, pre)
	env.site = true
	if strings.HasPrefix(key, "fnparam:") {
		// the spec of a function-typed parameter is written in the scope of the function that
		// declares it
		env.site = false
		env.block = ins.Block()
	}
	if pk := e.P.SPkgs[fc.Pkg]; pk != nil {
		env.pkg = pk.Pkg
	}
	for i, n := range names {
		if i < len(args) && n != "" && n != "_" {
			env.vars[n] = args[i]
		}
	}
	// free variables of a closure are cells: bind the name to the content
	if fn != nil {
		for i, fv := range fn.FreeVars {
			idx := len(fn.Params) + i
			if idx < len(args) {
				if pv, ok := args[idx].(PtrV); ok {
					env.vars[fv.Name()] = e.loadAt(pre, pv)
				}
			}
		}
	}
	// values the callee's contract remembers from inside its body are not visible here: each
	// is some boolean (existentially quantified in the callee's postcondition)
	for _, sa := range fc.Asserts {
		if sa.LetName != "" {
			if _, ok := env.vars[sa.LetName]; !ok {
				if sa.IntVal {
					env.vars[sa.LetName] = Scalar{Fresh("rem."+sa.LetName, I64)}
				} else {
					env.vars[sa.LetName] = Scalar{Fresh("rem."+sa.LetName, BoolSort)}
				}
			}
		}
	}
	for _, l := range fc.Lets {
		env.vars[l.Name] = env.eval(l.Expr)
	}
	if !e.specMode {
		for k, cl := range fc.Requires {
			// one obligation per conjunct (predicates unfolded), as for postconditions
			parts := e.splitConj(env, cl.Expr, nil, 0)
			for pi, pt := range parts {
				pe := *env
				pe.vars = pt.vars
				pe.site = pt.site
				if pt.pkg != nil {
					pe.pkg = pt.pkg
				}
				pe.polarity = polProve
				g := pe.evalBool(pt.x)
				label := fmt.Sprintf("%s@%d/%s", shortKey(key), ord, clauseLabel(cl, k))
				text := cl.Text
				if len(parts) > 1 {
					label = fmt.Sprintf("%s.%d", label, pi+1)
					text = pt.x.String() + "   [part of: " + cl.Text + "]"
				}
				e.addObl("pre", label, text, root.defaultProps, st, g, ins.Pos())
				e.ctx.assume(Imp(st.pc, g))
			}
		}
	}
	// hand-off accounting for parameters the callee completes exactly once: the callee either
	// completed the function value (done) or deferred it (its "unless" condition holds on return)
	type handoff struct {
		cs   ConsumeSpec
		ids  []*Term
		done *Term
	}
	var handoffs []handoff
	env.siteInvoked = map[string]*Term{}
	for _, cs := range fc.Consumes {
		for i, n := range names {
			if n == cs.Name && i < len(args) {
				done := True
				if cs.Unless != nil {
					done = Fresh("done."+cs.Name, BoolSort)
				}
				av := args[i]
				if pv, isCell := av.(PtrV); isCell && fn != nil && i >= len(fn.Params) {
					av = e.loadAt(pre, pv) // free variable: the cell's content is the function value
				}
				handoffs = append(handoffs, handoff{cs, e.handOnIDs(pre, av, 0), done})
				env.siteInvoked[cs.Name] = Ite(done, ConstI(1, I64), ConstI(0, I64))
			}
		}
	}
	// effects
	var ws *WriteSet
	if fn != nil && fn.Blocks != nil && !fc.Trusted {
		ws = e.fx().of(fn)
	} else if fn != nil {
		ws = e.fx().external(fn, nil)
	} else {
		ws = newWS()
		if !fc.HasModifies {
			ws.Top = true
		}
	}
	if fc.HasModifies {
		e.havocModifies(st, pre, env, fc, ws)
	} else if ws.Top {
		e.ctx.notes = append(e.ctx.notes, fmt.Sprintf("%s: callee %s may call out: heap havocked", shortKey(e.topName), shortKey(key)))
		e.havocKeepGhost(st, key)
	} else {
		e.havocSet(st, ws, "call")
	}
	// allocation frontier moves forward
	nt := Fresh("allocTop", Ref)
	e.ctx.assume(And(Le(pre.allocTop, nt), Le(nt, ConstI(staticBase, Ref))))
	st.allocTop = nt
	nr := Fresh("refTop", Ref)
	e.ctx.assume(And(Le(pre.refTop, nr), Le(nr, ConstI(staticBase, Ref))))
	st.refTop = nr
	res := e.resultValue("ret."+shortKey(key), sig.Results(), st)
	env.cur = st
	env.old = pre
	switch r := res.(type) {
	case nil:
	case TupleV:
		env.results = r
	default:
		env.results = []Value{r}
	}
	for i := 0; i < sig.Results().Len(); i++ {
		env.resultNames = append(env.resultNames, sig.Results().At(i).Name())
	}
	if fc.Trusted {
		e.ctx.assumes["trusted contract of "+shortKey(key)]++
	}
	for _, h := range handoffs {
		if h.cs.Unless != nil {
			env.polarity = polAssume
			deferred := env.withNeg(func() *Term { return env.evalBool(h.cs.Unless) })
			e.ctx.assume(Imp(st.pc, Or(h.done, deferred)))
		}
		for _, id := range h.ids {
			e.invBumpIf(st, id, h.done)
		}
	}
	// frame postconditions first: they rebuild the post-state memory the others talk about
	structural := map[int]bool{}
	for k, cl := range fc.Ensures {
		env.polarity = polAssume
		structural[k] = e.structuralFrame(cl.Expr, env, st, pre)
	}
	for k, cl := range fc.Ensures {
		if structural[k] {
			continue
		}
		env.polarity = polAssume
		e.ctx.assume(Imp(st.pc, env.evalBool(cl.Expr)))
	}
	e.siteAsserts(ins, key, args, st, "after", res)
	return res
}

// structuralFrame: a postcondition that is exactly  unchanged_except(X)  is not assumed as a
// quantified hypothesis; the post-state memory of X's element type is rebuilt from the
// pre-state memory with only X[0:len(X)] and storage allocated since forgotten - the same
// statement, in a form that needs no instantiation.
func (e *Exec) structuralFrame(x *SExpr, env *Env, st, pre *State) bool {
	if x.Kind != SCall || len(x.Args) != 2 || x.Args[0].Kind != SIdent || x.Args[0].Name != "unchanged_except" {
		return false
	}
	sv, ok := env.eval(x.Args[1]).(SliceV)
	if !ok {
		return false
	}
	lo, hi := sv.Ptr, AddNW(sv.Ptr, sv.Len)
	for _, lf := range e.leafFamilies(sv.Elem, "elem:"+typeName(sv.Elem)) {
		mo := e.ctx.family(pre, lf.key, lf.sort)
		if e.ctx.family(st, lf.key, lf.sort) == mo {
			continue
		}
		m := mo.Havoc("ue", lo, hi)
		m = m.Havoc("new", pre.allocTop, ConstI(staticBase, Ref))
		m = m.Havoc("newstatic", ConstI(staticBase*2, Ref), nil)
		st.mems[lf.key] = m
	}
	return true
}

// havocSet forgets whole families.
func (e *Exec) havocSet(st *State, ws *WriteSet, tag string) {
	if ws.Top {
		e.ctx.havocAll(st, tag)
		return
	}
	for _, k := range ws.keys() {
		e.ctx.havocFamily(st, k, ws.Fams[k])
	}
}

type modLoc struct {
	key    string
	sort   *Sort
	lo, hi *Term // [lo,hi)
}

// modifiesLocs evaluates the modifies clauses of fc in env (pre-state).
func (e *Exec) modifiesLocs(env *Env, fc *FuncContract) []modLoc {
	var out []modLoc
	savedOld := env.inOld
	env.inOld = true // locations are named in the pre-state
	defer func() { env.inOld = savedOld }()
	one := ConstI(1, Ref)
	for _, m := range fc.Modifies {
		if (m.Kind == SIdent || (m.Kind == SSel && m.Args[0].Kind == SIdent)) && e.C.GhostMaps[m.Name] {
			out = append(out, modLoc{"ghost:" + m.Name, I64, nil, nil})
			continue
		}
		if m.Kind == SCall && m.Args[0].Kind == SIdent && m.Args[0].Name == "mem" {
			sv, ok := env.eval(m.Args[1]).(SliceV)
			if !ok {
				env.fail("mem(...) needs a slice")
			}
			for _, lf := range e.leafFamilies(sv.Elem, "elem:"+typeName(sv.Elem)) {
				out = append(out, modLoc{lf.key, lf.sort, sv.Ptr, AddNW(sv.Ptr, sv.Len)})
			}
			continue
		}
		if m.Kind == SCall && m.Args[0].Kind == SIdent && m.Args[0].Name == "memcap" {
			sv, ok := env.eval(m.Args[1]).(SliceV)
			if !ok {
				env.fail("memcap(...) needs a slice")
			}
			for _, lf := range e.leafFamilies(sv.Elem, "elem:"+typeName(sv.Elem)) {
				out = append(out, modLoc{lf.key, lf.sort, sv.Ptr, AddNW(sv.Ptr, sv.Cap)})
			}
			continue
		}
		if m.Kind == SCall && m.Args[0].Kind == SIdent && m.Args[0].Name == "fields" {
			p, ok := env.eval(m.Args[1]).(PtrV)
			if !ok || p.Kind != pObj {
				env.fail("fields(...) needs a pointer to a struct")
			}
			out = append(out, e.objectLocs(p, env.state())...)
			continue
		}
		p := env.loc(m)
		switch p.Kind {
		case pLoc:
			for _, lf := range e.leafFamilies(p.T, p.Key) {
				out = append(out, modLoc{lf.key, lf.sort, p.Addr, AddNW(p.Addr, one)})
			}
		case pObj:
			out = append(out, e.objectLocs(p, env.state())...)
		case pArr:
			au := under(p.T).(*types.Array)
			for _, lf := range e.leafFamilies(au.Elem(), p.Key) {
				out = append(out, modLoc{lf.key, lf.sort, p.Addr, AddNW(p.Addr, ConstI(au.Len(), Ref))})
			}
		default:
			env.fail("modifies: unsupported location %s", m)
		}
	}
	return out
}

func (e *Exec) objectLocs(p PtrV, st *State) []modLoc {
	var out []modLoc
	su, _ := structOf(p.T)
	one := ConstI(1, Ref)
	for i := 0; i < su.NumFields(); i++ {
		fp := e.fieldAddr(p, i, st)
		switch fp.Kind {
		case pObj:
			out = append(out, e.objectLocs(fp, st)...)
		case pArr:
			au := under(fp.T).(*types.Array)
			for _, lf := range e.leafFamilies(au.Elem(), fp.Key) {
				out = append(out, modLoc{lf.key, lf.sort, fp.Addr, AddNW(fp.Addr, ConstI(au.Len(), Ref))})
			}
		default:
			for _, lf := range e.leafFamilies(fp.T, fp.Key) {
				out = append(out, modLoc{lf.key, lf.sort, fp.Addr, AddNW(fp.Addr, one)})
			}
		}
	}
	return out
}

func isElemFam(key string) bool { return strings.HasPrefix(key, "elem:") }

// havocModifies: precise havoc according to the callee's modifies clause.
func (e *Exec) havocModifies(st, pre *State, env *Env, fc *FuncContract, ws *WriteSet) {
	locs := e.modifiesLocs(env, fc)
	keys := map[string]*Sort{}
	for _, l := range locs {
		keys[l.key] = l.sort
	}
	// the callee may also write objects/memory it allocates itself
	if !ws.Top {
		for k, s := range ws.Fams {
			if _, ok := keys[k]; !ok {
				keys[k] = s
			}
		}
	} else {
		for k, m := range st.mems {
			if _, ok := keys[k]; !ok {
				keys[k] = m.sort
			}
		}
		e.ctx.assumes["callee with modifies clause and call-outs: frame trusted from its own frame obligations"]++
	}
	for _, k := range sortedKeys(keys) {
		s := keys[k]
		m := e.ctx.family(st, k, s)
		for _, l := range locs {
			if l.key == k {
				m = m.Havoc("mod", l.lo, l.hi)
			}
		}
		if strings.HasPrefix(k, "ghost:") {
			// ghost maps have no allocation frontier
		} else if isElemFam(k) {
			m = m.Havoc("new", pre.allocTop, ConstI(staticBase, Ref))
			if ws.Top || ws.AllocArr {
				m = m.Havoc("newstatic", ConstI(staticBase*2, Ref), nil)
			}
		} else if !strings.HasPrefix(k, "global:") {
			m = m.Havoc("new", pre.refTop, nil)
		}
		st.mems[k] = m
	}
}

// frameObligations: at a return of a function with a modifies clause, everything outside the
// listed locations (and outside freshly allocated storage) is unchanged.
func (e *Exec) frameObligations(st *State, pos token.Pos) {
	env := e.newEnv(st, e.entry)
	locs := e.modifiesLocs(env, e.fc)
	var keys []string
	seen := map[string]bool{}
	for k := range st.mems {
		keys = append(keys, k)
		seen[k] = true
	}
	for k := range st.famTags {
		if !seen[k] {
			keys = append(keys, k)
		}
	}
	sortStrings(keys)
	if st.baseTag != e.entry.baseTag || st.baseSel != nil {
		e.addObl("frame", "callout", "function with a modifies clause calls out to unknown code", e.fc.Props, st, False, pos)
		return
	}
	for _, k := range keys {
		if k == invFam {
			continue // the invoked ledger is ghost state of this activation
		}
		var srt *Sort
		if m, ok := st.mems[k]; ok {
			srt = m.sort
		} else {
			srt = st.famTags[k].sort
		}
		final := e.ctx.family(st, k, srt)
		initial := e.ctx.family(e.entry, k, srt)
		if final == initial {
			continue
		}
		a := Fresh("frame."+k, Ref)
		outside := True
		for _, l := range locs {
			if l.key == k {
				if l.lo == nil {
					outside = False
				} else {
					outside = And(outside, Or(Lt(a, l.lo), Le(l.hi, a)))
				}
			}
		}
		var old *Term
		if isElemFam(k) {
			old = And(Le(ConstI(0, Ref), a), Or(Lt(a, e.entry.allocTop), And(Le(ConstI(staticBase, Ref), a), Lt(a, ConstI(staticBase*2, Ref)))))
		} else if strings.HasPrefix(k, "global:") || strings.HasPrefix(k, "ghost:") {
			old = True
		} else {
			old = And(Le(ConstI(0, Ref), a), Lt(a, e.entry.refTop))
		}
		g := Imp(And(outside, old), Eq(e.ctx.mc.Read(final, a), e.ctx.mc.Read(initial, a)))
		e.addObl("frame", k+e.root().retEdge, "modifies: "+k+" unchanged outside the listed locations", e.fc.Props, st, g, pos)
	}
}

func sortStrings(s []string) {
	for i := 1; i < len(s); i++ {
		for j := i; j > 0 && s[j] < s[j-1]; j-- {
			s[j], s[j-1] = s[j-1], s[j]
		}
	}
}

func (e *Exec) loopWriteSet(li *loopInfo) *WriteSet {
	w := newWS()
	fx := e.fx()
	for b := range li.blocks {
		for _, ins := range b.Instrs {
			// an interface call whose receiver's dynamic type is known here (code executed in
			// place with a concrete argument) has the effects of that implementation, not of
			// the interface's environment contract
			if call, ok := ins.(*ssa.Call); ok && call.Call.IsInvoke() {
				if iv, ok := e.vals[call.Call.Value].(IfaceV); ok && iv.Dyn != nil {
					ms := e.P.Prog.MethodSets.MethodSet(iv.DynT)
					if sel := ms.Lookup(call.Call.Method.Pkg(), call.Call.Method.Name()); sel != nil {
						if fn := e.P.Prog.MethodValue(sel); fn != nil {
							w.add(fx.of(fn))
							continue
						}
					}
					w.Top = true
					continue
				}
			}
			w.add(fx.ofInstr(ins))
		}
	}
	return w
}

// siteAsserts: "assert call <pattern>: expr" clauses of the current function's contract.
func (e *Exec) siteAsserts(ins ssa.Instruction, callee string, args []Value, st *State, when string, res Value) {
	root := e.root()
	if root.fc == nil || e.specMode {
		return
	}
	inlined := e.parent != nil
	// a call through a function-typed parameter is named by the parameter, not by the function
	// that declares it (whose name would also match patterns meant for calls of that function)
	if strings.HasPrefix(callee, "fnparam:") {
		if i := strings.LastIndex(callee, "."); i >= 0 {
			callee = callee[i+1:]
		}
	}
	for ai, sa := range root.fc.Asserts {
		if sa.When != when {
			continue
		}
		if when == "def" {
			if callee != sa.Pattern {
				continue
			}
		} else if when == "at" {
			if !strings.Contains(callee, sa.Pattern) {
				continue
			}
			if root.counts[fmt.Sprintf("atfired:%d:%s", ai, callee)] > 0 {
				continue
			}
			root.counts[fmt.Sprintf("atfired:%d:%s", ai, callee)]++
		} else if !strings.Contains(callee, sa.Pattern) {
			continue
		}
		ck := fmt.Sprintf("site:%d:%s", ai, when)
		if when == "before" {
			root.counts[ck]++
		} else {
			root.counts[ck]++
		}
		ord := root.counts[ck]
		if sa.Ordinal != 0 && sa.Ordinal != ord {
			continue
		}
		root.counts["fired:"+ck]++
		if false {
		}
		env := e.newEnv(st, e.entry)
		env.args = args
		env.block = ins.Block()
		if inlined {
			// the clause belongs to the function under verification; inside code executed in
			// place the callee's own names are visible first, then the caller's
			env = e.newEnv(st, root.entry)
			env.args = args
			env.block = ins.Block()
		}
		switch r := res.(type) {
		case nil:
		case TupleV:
			env.results = r
		default:
			env.results = []Value{r}
		}
		if sa.LetName != "" && sa.IntVal {
			// remembered integer: path-sensitive ghost, 0 until defined
			switch rv := env.eval(sa.Clause.Expr).(type) {
			case IfaceV, PtrV, FuncV:
				// a remembered reference: its identity
				st.ghost["let:"+sa.LetName] = e.scalarOf(rv)
			default:
				st.ghost["let:"+sa.LetName] = e.toI64(rv)
			}
			continue
		}
		if sa.LetName != "" {
			// remembered boolean: path-sensitive ghost (0/1), false until defined
			env.polarity = polProve
			b := env.withNeg(func() *Term { return env.evalBool(sa.Clause.Expr) })
			st.ghost["let:"+sa.LetName] = Ite(b, ConstI(1, I64), ConstI(0, I64))
			continue
		}
		if sa.Assume {
			env.polarity = polAssume
			e.ctx.assume(Imp(st.pc, env.evalBool(sa.Clause.Expr)))
			e.ctx.assumes["assume at call "+sa.Pattern+" in "+shortKey(e.topName)+": "+sa.Clause.Text]++
			continue
		}
		env.polarity = polProve
		g := env.evalBool(sa.Clause.Expr)
		label := sa.Clause.Label
		if label == "" {
			label = fmt.Sprintf("%s:%s", when, sa.Pattern)
			// several unlabelled clauses on the same site: number the later ones
			nth := 0
			for aj, other := range root.fc.Asserts {
				if aj < ai && other.Clause.Label == "" && other.Pattern == sa.Pattern && other.When == sa.When && other.LetName == "" && !other.Assume {
					nth++
				}
			}
			if nth > 0 {
				label = fmt.Sprintf("%s/%d", label, nth+1)
			}
		}
		e.addObl("assert", fmt.Sprintf("%s#%d", label, ord), sa.Clause.Text, root.fc.clauseProps(sa.Clause), st, g, ins.Pos())
		e.ctx.assume(Imp(st.pc, g))
	}
}

// lookupLocal resolves a source-level local variable name at block b: header phis by name,
// then the closest dominating DebugRef.
func (e *Exec) lookupLocal(name string, b *ssa.BasicBlock, st *State) (Value, bool) {
	for blk := b; blk != nil; blk = blk.Idom() {
		var found ssa.Value
		isAddr := false
		for _, ins := range blk.Instrs {
			switch x := ins.(type) {
			case *ssa.Phi:
				if x.Comment == name {
					found, isAddr = x, false
				}
			case *ssa.DebugRef:
				if id, ok := x.Expr.(interface{ String() string }); ok && x.Object() != nil && x.Object().Name() == name {
					_ = id
					if _, computed := e.vals[x.X]; computed || isConstLike(x.X) {
						found, isAddr = x.X, x.IsAddr
					}
				}
			}
			if blk == b {
				// at a loop header only the phis are "before" the evaluation point
				if _, isPhi := ins.(*ssa.Phi); !isPhi && e.headers[b] != nil {
					break
				}
			}
		}
		if found != nil {
			// the variable lives in a cell (captured or address-taken) and the reference we found
			// is a load of it made earlier: its value now is what the cell holds now
			if u, isLoad := found.(*ssa.UnOp); isLoad && !isAddr && u.Op == token.MUL {
				switch u.X.(type) {
				case *ssa.Alloc, *ssa.FreeVar:
					found, isAddr = u.X, true
				}
			}
			v := e.val(found)
			if isAddr {
				if e.cellIsFinal(found) {
					if cv, ok := e.finalCells[found]; ok {
						return cv, true
					}
				}
				if p, ok := v.(PtrV); ok {
					cv := e.loadAt(st, p)
					if e.cellIsFinal(found) {
						e.finalCells[found] = cv
					}
					return cv, true
				}
			}
			return v, true
		}
	}
	return nil, false
}

func isConstLike(v ssa.Value) bool {
	switch v.(type) {
	case *ssa.Const, *ssa.Global, *ssa.Function, *ssa.Parameter, *ssa.FreeVar:
		return true
	}
	return false
}

// Builtins --------------------------------------------------------------------------

func (e *Exec) builtin(ins ssa.Instruction, name string, c *ssa.CallCommon, args []Value, st *State) Value {
	switch name {
	case "len", "cap":
		switch a := args[0].(type) {
		case SliceV:
			if name == "len" {
				return Scalar{a.Len}
			}
			return Scalar{a.Cap}
		case StringV:
			return Scalar{a.Len}
		case PtrV:
			if au, ok := under(a.T).(*types.Array); ok {
				return Scalar{ConstI(au.Len(), I64)}
			}
		case ArrayV:
			return Scalar{ConstI(int64(len(a.Elems)), I64)}
		case Scalar: // map / chan
			l := Fresh("maplen", I64)
			e.ctx.assume(Le(ConstI(0, I64), l))
			return Scalar{l}
		}
	case "min", "max":
		x, y := e.scalarOf(args[0]), e.scalarOf(args[1])
		if name == "min" {
			return Scalar{Ite(Le(x, y), x, y)}
		}
		return Scalar{Ite(Le(x, y), y, x)}
	case "copy":
		dst := args[0].(SliceV)
		var srcPtr, srcLen *Term
		strSrc := false
		switch s := args[1].(type) {
		case SliceV:
			srcPtr, srcLen = s.Ptr, s.Len
		case StringV:
			srcLen = s.Len
			strSrc = true
		}
		n := Ite(Le(dst.Len, srcLen), dst.Len, srcLen)
		for _, lf := range e.leafFamilies(dst.Elem, "elem:"+typeName(dst.Elem)) {
			m := e.ctx.family(st, lf.key, lf.sort)
			if strSrc {
				st.mems[lf.key] = m.Havoc("strcopy", dst.Ptr, AddNW(dst.Ptr, n))
			} else {
				st.mems[lf.key] = m.Copy(dst.Ptr, m, srcPtr, n)
			}
		}
		return Scalar{n}
	case "append":
		return e.appendOp(ins, c, args, st)
	case "clear":
		if s, ok := args[0].(SliceV); ok {
			e.fillZero(s.Elem, "elem:"+typeName(s.Elem), s.Ptr, s.Len, st)
		}
		return nil
	case "print", "println":
		return nil
	case "delete":
		return nil
	}
	e.errorf("builtin %s", name)
	return nil
}

func (e *Exec) appendOp(ins ssa.Instruction, c *ssa.CallCommon, args []Value, st *State) Value {
	s := args[0].(SliceV)
	var addPtr, addLen *Term
	strSrc := false
	switch a := args[1].(type) {
	case SliceV:
		addPtr, addLen = a.Ptr, a.Len
	case StringV:
		addLen = a.Len
		strSrc = true
	default:
		e.errorf("append of %T", args[1])
	}
	newLen := Add(s.Len, addLen)
	// total length must stay representable
	e.safe("append", st, Le(s.Len, newLen), ins.Pos())
	// allocation succeeds, hence no slice is ever longer than 2^47 elements
	e.ctx.assume(Imp(st.pc, Le(newLen, ConstI(maxAddr, I64))))
	e.ctx.assumes["allocation succeeds: no slice grows beyond 2^47 elements"]++
	fits := Le(newLen, s.Cap)
	// growth: a fresh array of some capacity >= newLen
	newCap := Fresh("append.cap", I64)
	// growth is bounded (Go's growslice at most doubles and rounds up to a size class)
	e.ctx.assume(And(Le(newLen, newCap), Le(newCap, ConstI(maxAddr, I64)), Le(newCap, AddNW(Mul(ConstI(4, I64), newLen), ConstI(4096, I64)))))
	fresh := e.allocSlice(s.Elem, newLen, newCap, st, false)
	resPtr := Ite(fits, s.Ptr, fresh.Ptr)
	resCap := Ite(fits, s.Cap, newCap)
	for _, lf := range e.leafFamilies(s.Elem, "elem:"+typeName(s.Elem)) {
		m := e.ctx.family(st, lf.key, lf.sort)
		snapshot := m
		// copy old contents into the fresh array (harmless when it fits: the fresh region is unobserved)
		m = m.Copy(fresh.Ptr, snapshot, s.Ptr, s.Len)
		// zero tail of a fresh array beyond newLen is unobservable until resliced; model as unconstrained
		dst := AddNW(resPtr, s.Len)
		if strSrc {
			m = m.Havoc("appendstr", dst, AddNW(dst, addLen))
		} else {
			m = m.Copy(dst, snapshot, addPtr, addLen)
		}
		st.mems[lf.key] = m
	}
	return SliceV{Ptr: resPtr, Len: newLen, Cap: resCap, Elem: s.Elem}
}

func isSpecialKey(key string) bool {
	switch key {
	case "errors.New", "fmt.Errorf", "os.NewSyscallError":
		return true
	}
	return strings.HasPrefix(key, "sync/atomic.")
}

// specialCall: models of a few runtime/library functions.
func (e *Exec) specialCall(ins ssa.Instruction, key string, fn *ssa.Function, args []Value, st *State) (Value, bool) {
	switch key {
	case "sync/atomic.CompareAndSwapInt32", "sync/atomic.CompareAndSwapUint32", "sync/atomic.CompareAndSwapInt64":
		p := args[0].(PtrV)
		cur := e.scalarOf(e.loadAt(st, p))
		ok := Eq(cur, e.scalarOf(args[1]))
		e.storeAt(st, p, Scalar{Ite(ok, e.scalarOf(args[2]), cur)})
		e.ctx.assumes["sync/atomic operations modelled with single-goroutine semantics"]++
		return Scalar{ok}, true
	case "sync/atomic.LoadInt32", "sync/atomic.LoadUint32", "sync/atomic.LoadInt64", "sync/atomic.LoadUint64":
		e.ctx.assumes["sync/atomic operations modelled with single-goroutine semantics"]++
		return e.loadAt(st, args[0].(PtrV)), true
	case "sync/atomic.StoreInt32", "sync/atomic.StoreUint32", "sync/atomic.StoreInt64", "sync/atomic.StoreUint64":
		e.ctx.assumes["sync/atomic operations modelled with single-goroutine semantics"]++
		e.storeAt(st, args[0].(PtrV), args[1])
		return nil, true
	case "errors.New", "fmt.Errorf":
		id := Fresh("err", Ref)
		e.ctx.assume(Lt(ConstI(0, Ref), id))
		return IfaceV{ID: id}, true
	case "os.NewSyscallError":
		// nil iff the wrapped error is nil
		id := Fresh("syserr", Ref)
		inner := e.scalarOf(args[1])
		e.ctx.assume(Eq(Eq(id, ConstI(0, Ref)), Eq(inner, ConstI(0, Ref))))
		e.ctx.assume(Le(ConstI(0, Ref), id))
		return IfaceV{ID: id}, true
	case "sync/atomic.AddInt32", "sync/atomic.AddInt64", "sync/atomic.AddUint32", "sync/atomic.AddUint64":
		e.ctx.assumes["sync/atomic operations modelled with single-goroutine semantics"]++
		p := args[0].(PtrV)
		nv := Add(e.scalarOf(e.loadAt(st, p)), e.scalarOf(args[1]))
		e.storeAt(st, p, Scalar{nv})
		return Scalar{nv}, true
	}
	return nil, false
}

// havocKeepGhost: everything reachable by unknown code is forgotten; ghost state of this
// activation (the invoked ledger and ghost maps not written by the callee) is not reachable.
func (e *Exec) havocKeepGhost(st *State, why string) {
	keep := map[string]*Mem{}
	for k, m := range st.mems {
		if k == invFam || e.C.immutableKey(k) {
			keep[k] = m
		}
	}
	// immutable fields not read so far keep their (initial) value too: materialise them
	for _, base := range sortedKeys(e.C.Immutable) {
		for _, lf := range e.immutableFamilies(base) {
			if _, ok := keep[lf.key]; !ok {
				keep[lf.key] = e.ctx.family(st, lf.key, lf.sort)
			}
		}
	}
	e.lockObligation(st, why)
	if _, ok := keep[invFam]; !ok {
		keep[invFam] = e.ctx.family(st, invFam, I64)
	}
	e.ctx.havocAll(st, why)
	for k, m := range keep {
		st.mems[k] = m
	}
}

// immutableFamilies: leaf families of an immutable field "T.f" (the field's type is looked up
// in the program).
func (e *Exec) immutableFamilies(base string) []leafFam {
	dot := strings.LastIndex(base, ".")
	tname, fname := base[:dot], base[dot+1:]
	t := e.findNamedType(tname)
	if t == nil {
		return nil
	}
	su, ok := structOf(t)
	if !ok {
		return nil
	}
	for i := 0; i < su.NumFields(); i++ {
		if su.Field(i).Name() == fname {
			ft := su.Field(i).Type()
			if _, isStruct := structOf(ft); isStruct {
				return nil
			}
			if _, isArr := under(ft).(*types.Array); isArr {
				return nil
			}
			return e.leafFamilies(ft, base)
		}
	}
	return nil
}

var namedTypeCache = map[string]types.Type{}

func (e *Exec) findNamedType(rel string) types.Type {
	if t, ok := namedTypeCache[rel]; ok {
		return t
	}
	pkgPath := modPath
	name := rel
	if i := strings.LastIndex(rel, "."); i >= 0 {
		pkgPath = modPath + "/" + rel[:i]
		name = rel[i+1:]
	}
	var t types.Type
	if sp := e.P.SPkgs[pkgPath]; sp != nil {
		if obj := sp.Pkg.Scope().Lookup(name); obj != nil {
			t = obj.Type()
		}
	}
	namedTypeCache[rel] = t
	return t
}

// Locks ------------------------------------------------------------------------------

func heldKey(addr *Term) string { return "held:" + addr.String() }

// lockObligation: no mutex of this activation is held when control leaves to unknown code
// (the callee may re-enter the library and take the same lock).
func (e *Exec) lockObligation(st *State, why string) {
	for _, k := range sortedKeys(st.ghost) {
		v := st.ghost[k]
		if strings.HasPrefix(k, "held:") {
			root := e.root()
			root.counts["lockco:"+k]++
			e.addObl("lock", fmt.Sprintf("not-held-at-callout#%d", root.counts["lockco:"+k]), "no mutex is held while calling out to user code ("+why+")", e.lockProps(), st, Eq(v, ConstI(0, I64)), token.NoPos)
		}
	}
}

func (e *Exec) lockProps() []string {
	root := e.root()
	return root.defaultProps
}

func isMutexKey(key string) bool {
	switch key {
	case "sync.(*Mutex).Lock", "sync.(*Mutex).Unlock", "sync.(*RWMutex).Lock", "sync.(*RWMutex).Unlock":
		return true
	}
	return false
}

func (e *Exec) mutexCall(ins ssa.Instruction, key string, args []Value, st *State) bool {
	switch key {
	case "sync.(*Mutex).Lock", "sync.(*Mutex).Unlock", "sync.(*RWMutex).Lock", "sync.(*RWMutex).Unlock":
	default:
		return false
	}
	pv, ok := args[0].(PtrV)
	if !ok {
		return false
	}
	k := heldKey(pv.Addr)
	cur := e.ghostGet(st, k)
	if strings.HasSuffix(key, ".Lock") {
		e.addObl("lock", "acquire:"+e.lineOf(ins), "mutex is not already held by this goroutine (self-deadlock)", e.lockProps(), st, Eq(cur, ConstI(0, I64)), ins.Pos())
		st.ghost[k] = ConstI(1, I64)
	} else {
		e.addObl("lock", "release:"+e.lineOf(ins), "mutex is held when unlocked", e.lockProps(), st, Eq(cur, ConstI(1, I64)), ins.Pos())
		st.ghost[k] = ConstI(0, I64)
	}
	return true
}

func (e *Exec) lineOf(ins ssa.Instruction) string {
	txt, _ := e.srcLine(ins.Pos())
	root := e.root()
	root.counts["line:"+txt]++
	return fmt.Sprintf("%s#%d", txt, root.counts["line:"+txt])
}

// guardedAccess: obligation for a load/store of a field declared "guarded T.f by lock".
func (e *Exec) guardedAccess(p PtrV, st *State, pos token.Pos, what string) {
	if p.Kind != pLoc || e.specMode {
		return
	}
	base := p.Key
	if i := strings.Index(base, "#"); i >= 0 {
		base = base[:i]
	}
	gs := e.C.Guarded[base]
	if gs == nil {
		return
	}
	for _, c := range gs.Constructors {
		if strings.Contains(e.topName, c) {
			return
		}
	}
	// the lock field of the same object
	dot := strings.LastIndex(base, ".")
	t := e.findNamedType(base[:dot])
	if t == nil {
		return
	}
	su, _ := structOf(t)
	idx, _ := findField(su, gs.Lock)
	if idx < 0 {
		e.errorf("guarded: no lock field %s in %s", gs.Lock, base[:dot])
	}
	lp := e.fieldAddr(PtrV{Kind: pObj, Addr: p.Addr, T: t, FirstClass: true}, idx, st)
	held := e.ghostGet(st, heldKey(lp.Addr))
	txt, _ := e.srcLine(pos)
	root := e.root()
	ck := "guarded:" + base + ":" + txt
	root.counts[ck]++
	props := gs.Props
	e.addObl("guarded", fmt.Sprintf("%s@%s#%d", base, txt, root.counts[ck]), what+" of "+base+" with "+gs.Lock+" held (field is shared with goroutines calling Post)", props, st, Eq(held, ConstI(1, I64)), pos)
}

// debugName: the source-level variable name bound to an SSA value (from DebugRef).
func debugName(ins ssa.Instruction, v ssa.Value) string {
	fn := ins.Parent()
	for _, b := range fn.Blocks {
		for _, i := range b.Instrs {
			if d, ok := i.(*ssa.DebugRef); ok && d.X == v && !d.IsAddr && d.Object() != nil {
				return d.Object().Name()
			}
		}
	}
	return ""
}

// devirt: an interface declared to have a single in-repo implementation (pointer receiver)
// is viewed as a pointer to that struct.
func (e *Exec) devirt(iv IfaceV, t types.Type) (PtrV, bool) {
	if t == nil {
		t = iv.T
	}
	n, ok := t.(*types.Named)
	if !ok || n.Obj().Pkg() == nil {
		return PtrV{}, false
	}
	target, ok := e.C.Devirt[n.Obj().Pkg().Path()+"."+n.Obj().Name()]
	if !ok {
		return PtrV{}, false
	}
	dot := strings.LastIndex(target, ".")
	sp := e.P.SPkgs[target[:dot]]
	if sp == nil {
		return PtrV{}, false
	}
	obj := sp.Pkg.Scope().Lookup(target[dot+1:])
	if obj == nil {
		return PtrV{}, false
	}
	ref := App("ifaceptr", Ref, iv.ID)
	// the wrapped pointer is nil exactly when the interface is
	e.ctx.assume(And(Eq(Eq(ref, ConstI(0, Ref)), Eq(iv.ID, ConstI(0, Ref))), Le(ConstI(0, Ref), ref), Lt(ref, ConstI(staticBase, Ref))))
	return PtrV{Kind: pObj, Addr: ref, T: obj.Type(), FirstClass: true}, true
}

// sortedKeys: map keys in a fixed order, so that fresh symbols are numbered and assertions
// are ordered the same way on every run (solver run times depend on both).
func sortedKeys[V any](m map[string]V) []string {
	ks := make([]string, 0, len(m))
	for k := range m {
		ks = append(ks, k)
	}
	sort.Strings(ks)
	return ks
}
