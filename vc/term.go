package main

// Term DAG with hash-consing, light simplification, and two SMT-LIB printers:
// int mode (Go integers as SMT Int with exact wrap-around) and bv mode
// (bit-vectors of the Go width). Both are exact encodings of Go arithmetic.

import (
	"strconv"
	"fmt"
	"math/big"
	"regexp"
	"sort"
	"strings"
)

type SortKind int

const (
	SBool SortKind = iota
	SInt
)

// Sort of a term. Integers carry the width/signedness of the Go type they model.
type Sort struct {
	Kind   SortKind
	W      int
	Signed bool
}

var (
	BoolSort = &Sort{Kind: SBool}
	intSorts = map[[2]int]*Sort{}
)

func IntSort(w int, signed bool) *Sort {
	k := [2]int{w, 0}
	if signed {
		k[1] = 1
	}
	if s, ok := intSorts[k]; ok {
		return s
	}
	s := &Sort{Kind: SInt, W: w, Signed: signed}
	intSorts[k] = s
	return s
}

var (
	I64 = IntSort(64, true)
	U64 = IntSort(64, false)
	U8  = IntSort(8, false)
	Ref = I64 // object references, addresses, identities
)

func (s *Sort) String() string {
	if s.Kind == SBool {
		return "bool"
	}
	if s.Signed {
		return fmt.Sprintf("i%d", s.W)
	}
	return fmt.Sprintf("u%d", s.W)
}

func (s *Sort) Min() *big.Int {
	if !s.Signed {
		return big.NewInt(0)
	}
	return new(big.Int).Neg(new(big.Int).Lsh(big.NewInt(1), uint(s.W-1)))
}
func (s *Sort) Max() *big.Int {
	if !s.Signed {
		return new(big.Int).Sub(new(big.Int).Lsh(big.NewInt(1), uint(s.W)), big.NewInt(1))
	}
	return new(big.Int).Sub(new(big.Int).Lsh(big.NewInt(1), uint(s.W-1)), big.NewInt(1))
}

// wrapBig reduces v to the range of s (two's complement).
func (s *Sort) wrapBig(v *big.Int) *big.Int {
	m := new(big.Int).Lsh(big.NewInt(1), uint(s.W))
	r := new(big.Int).Mod(v, m) // Euclidean, in [0,m)
	if s.Signed && r.Cmp(s.Max()) > 0 {
		r.Sub(r, m)
	}
	return r
}

type Op int

const (
	OConst Op = iota
	OVar      // free symbol
	OApp      // uninterpreted function application; Name = function
	OAdd      // wrapping, sort of result
	OSub
	OMul
	ODiv // Go truncated division
	ORem
	ONeg
	OAddNW // no-wrap add, used for addresses
	OSubNW
	OBitAnd
	OBitOr
	OBitXor
	OBitAndNot
	OBitNot
	OShl
	OShr
	OConv // integer conversion to t.Sort from Args[0].Sort
	OEq
	OLt
	OLe
	OAnd
	OOr
	ONot
	OImp
	OIte
	OTrue
	OFalse
)

type Term struct {
	Op   Op
	Args []*Term
	Sort *Sort
	Val  *big.Int // OConst
	Name string   // OVar, OApp
	id   int
	size int
}

type TermStore struct {
	tab  map[string]*Term
	next int
}

var TS = &TermStore{tab: map[string]*Term{}}

func (ts *TermStore) mk(op Op, sort *Sort, name string, val *big.Int, args ...*Term) *Term {
	var sb strings.Builder
	fmt.Fprintf(&sb, "%d|%s|%s|", op, sort.String(), name)
	if val != nil {
		sb.WriteString(val.String())
	}
	for _, a := range args {
		fmt.Fprintf(&sb, "|%d", a.id)
	}
	k := sb.String()
	if t, ok := ts.tab[k]; ok {
		return t
	}
	ts.next++
	sz := 1
	for _, a := range args {
		sz += a.size
		if sz > 1<<40 {
			sz = 1 << 40
		}
	}
	t := &Term{Op: op, Args: args, Sort: sort, Val: val, Name: name, id: ts.next, size: sz}
	ts.tab[k] = t
	return t
}

var freshCounter int

func Fresh(prefix string, s *Sort) *Term {
	freshCounter++
	return Var(fmt.Sprintf("%s!%d", sanitize(prefix), freshCounter), s)
}

func sanitize(s string) string {
	var sb strings.Builder
	for _, r := range s {
		switch {
		case r >= 'a' && r <= 'z', r >= 'A' && r <= 'Z', r >= '0' && r <= '9', r == '_', r == '.', r == '!', r == '$':
			sb.WriteRune(r)
		default:
			sb.WriteRune('_')
		}
	}
	return sb.String()
}

func Var(name string, s *Sort) *Term { return TS.mk(OVar, s, name, nil) }
func App(name string, s *Sort, args ...*Term) *Term {
	return TS.mk(OApp, s, sanitize(name), nil, args...)
}
func Const(v *big.Int, s *Sort) *Term { return TS.mk(OConst, s, "", s.wrapBig(v)) }
func ConstI(v int64, s *Sort) *Term   { return Const(big.NewInt(v), s) }

var (
	True  = TS.mk(OTrue, BoolSort, "", nil)
	False = TS.mk(OFalse, BoolSort, "", nil)
)

func BoolT(b bool) *Term {
	if b {
		return True
	}
	return False
}

func (t *Term) IsConst() bool { return t.Op == OConst }
func (t *Term) IsTrue() bool  { return t.Op == OTrue }
func (t *Term) IsFalse() bool { return t.Op == OFalse }

func Not(a *Term) *Term {
	switch a.Op {
	case OTrue:
		return False
	case OFalse:
		return True
	case ONot:
		return a.Args[0]
	}
	return TS.mk(ONot, BoolSort, "", nil, a)
}

func And(as ...*Term) *Term {
	var out []*Term
	seen := map[int]bool{}
	for _, a := range as {
		if a.IsTrue() {
			continue
		}
		if a.IsFalse() {
			return False
		}
		if a.Op == OAnd {
			for _, b := range a.Args {
				if !seen[b.id] {
					seen[b.id] = true
					out = append(out, b)
				}
			}
			continue
		}
		if !seen[a.id] {
			seen[a.id] = true
			out = append(out, a)
		}
	}
	for _, a := range out {
		if a.Op == ONot && seen[a.Args[0].id] {
			return False
		}
	}
	if len(out) == 0 {
		return True
	}
	if len(out) == 1 {
		return out[0]
	}
	return TS.mk(OAnd, BoolSort, "", nil, out...)
}

func Or(as ...*Term) *Term {
	var out []*Term
	seen := map[int]bool{}
	for _, a := range as {
		if a.IsFalse() {
			continue
		}
		if a.IsTrue() {
			return True
		}
		if a.Op == OOr {
			for _, b := range a.Args {
				if !seen[b.id] {
					seen[b.id] = true
					out = append(out, b)
				}
			}
			continue
		}
		if !seen[a.id] {
			seen[a.id] = true
			out = append(out, a)
		}
	}
	for _, a := range out {
		if a.Op == ONot && seen[a.Args[0].id] {
			return True
		}
	}
	if len(out) == 0 {
		return False
	}
	if len(out) == 1 {
		return out[0]
	}
	// factor conjuncts common to all disjuncts:  (a&b&c) | (a&b&d)  =  a & b & (c|d).
	// Path conditions of merged states keep their shared prefix visible this way.
	conj := func(t *Term) []*Term {
		if t.Op == OAnd {
			return t.Args
		}
		return []*Term{t}
	}
	count := map[int]int{}
	for _, a := range out {
		for _, c := range conj(a) {
			count[c.id]++
		}
	}
	var common []*Term
	for _, c := range conj(out[0]) {
		if count[c.id] == len(out) {
			common = append(common, c)
		}
	}
	if len(common) > 0 {
		isCommon := map[int]bool{}
		for _, c := range common {
			isCommon[c.id] = true
		}
		var rests []*Term
		for _, a := range out {
			var r []*Term
			for _, c := range conj(a) {
				if !isCommon[c.id] {
					r = append(r, c)
				}
			}
			if len(r) == 0 {
				return And(common...)
			}
			rests = append(rests, And(r...))
		}
		return And(append(common, Or(rests...))...)
	}
	return TS.mk(OOr, BoolSort, "", nil, out...)
}

func Imp(a, b *Term) *Term {
	if a.IsTrue() {
		return b
	}
	if a.IsFalse() || b.IsTrue() {
		return True
	}
	if b.IsFalse() {
		return Not(a)
	}
	if a == b {
		return True
	}
	return TS.mk(OImp, BoolSort, "", nil, a, b)
}

func Ite(c, a, b *Term) *Term {
	if c.IsTrue() {
		return a
	}
	if c.IsFalse() {
		return b
	}
	if a == b {
		return a
	}
	if a.Sort != b.Sort {
		panic(fmt.Sprintf("ite sort mismatch %s vs %s", a.Sort, b.Sort))
	}
	if a.Sort.Kind == SBool {
		if a.IsTrue() && b.IsFalse() {
			return c
		}
		if a.IsFalse() && b.IsTrue() {
			return Not(c)
		}
		if a.IsTrue() {
			return Or(c, b)
		}
		if b.IsFalse() {
			return And(c, a)
		}
		if a.IsFalse() {
			return And(Not(c), b)
		}
		if b.IsTrue() {
			return Or(Not(c), a)
		}
	}
	if c.Op == ONot {
		return Ite(c.Args[0], b, a)
	}
	// ite(c, x, ite(c, y, z)) = ite(c, x, z)
	if b.Op == OIte && b.Args[0] == c {
		return Ite(c, a, b.Args[2])
	}
	if a.Op == OIte && a.Args[0] == c {
		return Ite(c, a.Args[1], b)
	}
	return TS.mk(OIte, a.Sort, "", nil, c, a, b)
}

func Eq(a, b *Term) *Term {
	if a == b {
		return True
	}
	if a.Sort != b.Sort {
		panic(fmt.Sprintf("eq sort mismatch %s vs %s: %s = %s", a.Sort, b.Sort, a, b))
	}
	if a.Sort.Kind == SBool {
		if a.IsTrue() {
			return b
		}
		if b.IsTrue() {
			return a
		}
		if a.IsFalse() {
			return Not(b)
		}
		if b.IsFalse() {
			return Not(a)
		}
	}
	if a.IsConst() && b.IsConst() {
		return BoolT(a.Val.Cmp(b.Val) == 0)
	}
	// canonical argument order that does not depend on when the terms were created (ids differ
	// from run to run with the set of functions verified; solver run times are sensitive to it)
	if termLess(b, a, 0) {
		a, b = b, a
	}
	return TS.mk(OEq, BoolSort, "", nil, a, b)
}

// termLess: a structural order on terms (constants first, then by size, operator, name, value,
// arguments); ids only break ties between structurally equal prefixes deeper than 8 levels.
func termLess(a, b *Term, depth int) bool {
	if a == b {
		return false
	}
	if a.IsConst() != b.IsConst() {
		return a.IsConst() // constants first: the orientation the solvers were seen to cope with best
	}
	if a.size != b.size {
		return a.size < b.size
	}
	if a.Op != b.Op {
		return a.Op < b.Op
	}
	if a.Name != b.Name {
		// fresh symbols carry a global counter ("x!17"): compare stems, then the counters as
		// numbers (their order is the creation order within the function, whatever the offset)
		sa, na := splitFresh(a.Name)
		sb, nb := splitFresh(b.Name)
		if sa != sb {
			return sa < sb
		}
		return na < nb
	}
	if a.Val != nil && b.Val != nil {
		if c := a.Val.Cmp(b.Val); c != 0 {
			return c < 0
		}
	}
	if len(a.Args) != len(b.Args) {
		return len(a.Args) < len(b.Args)
	}
	if depth < 8 {
		for i := range a.Args {
			if a.Args[i] != b.Args[i] {
				return termLess(a.Args[i], b.Args[i], depth+1)
			}
		}
	}
	return a.id < b.id
}

func Ne(a, b *Term) *Term { return Not(Eq(a, b)) }

func Lt(a, b *Term) *Term {
	if a.Sort != b.Sort {
		panic(fmt.Sprintf("lt sort mismatch %s vs %s", a.Sort, b.Sort))
	}
	if a == b {
		return False
	}
	if a.IsConst() && b.IsConst() {
		return BoolT(a.Val.Cmp(b.Val) < 0)
	}
	return TS.mk(OLt, BoolSort, "", nil, a, b)
}
func Le(a, b *Term) *Term {
	if a.Sort != b.Sort {
		panic(fmt.Sprintf("le sort mismatch %s vs %s", a.Sort, b.Sort))
	}
	if a == b {
		return True
	}
	if a.IsConst() && b.IsConst() {
		return BoolT(a.Val.Cmp(b.Val) <= 0)
	}
	return TS.mk(OLe, BoolSort, "", nil, a, b)
}
func Gt(a, b *Term) *Term { return Lt(b, a) }
func Ge(a, b *Term) *Term { return Le(b, a) }

func isZero(t *Term) bool { return t.IsConst() && t.Val.Sign() == 0 }

func Arith(op Op, a, b *Term) *Term {
	if a.Sort != b.Sort {
		panic(fmt.Sprintf("arith sort mismatch %s vs %s (op %d): %s , %s", a.Sort, b.Sort, op, a, b))
	}
	s := a.Sort
	if a.IsConst() && b.IsConst() {
		r := new(big.Int)
		switch op {
		case OAdd, OAddNW:
			return Const(r.Add(a.Val, b.Val), s)
		case OSub, OSubNW:
			return Const(r.Sub(a.Val, b.Val), s)
		case OMul:
			return Const(r.Mul(a.Val, b.Val), s)
		case ODiv:
			if b.Val.Sign() != 0 {
				return Const(r.Quo(a.Val, b.Val), s)
			}
		case ORem:
			if b.Val.Sign() != 0 {
				return Const(r.Rem(a.Val, b.Val), s)
			}
		case OBitAnd, OBitOr, OBitXor, OBitAndNot:
			ua, ub := unsignedOf(a), unsignedOf(b)
			switch op {
			case OBitAnd:
				r.And(ua, ub)
			case OBitOr:
				r.Or(ua, ub)
			case OBitXor:
				r.Xor(ua, ub)
			case OBitAndNot:
				r.AndNot(ua, ub)
			}
			return Const(r, s)
		}
	}
	switch op {
	case OAdd, OAddNW:
		if isZero(a) {
			return b
		}
		if isZero(b) {
			return a
		}
		// (x + c1) + c2
		if b.IsConst() && a.Op == op && a.Args[1].IsConst() {
			return Arith(op, a.Args[0], Const(new(big.Int).Add(a.Args[1].Val, b.Val), s))
		}
		// (x - y) + y = x  (valid with wrap-around as well)
		if (a.Op == OSub || a.Op == OSubNW) && a.Args[1] == b {
			return a.Args[0]
		}
	case OSub, OSubNW:
		if isZero(b) {
			return a
		}
		if a == b {
			return ConstI(0, s)
		}
		// (x + y) - y = x ; (x + y) - x = y
		if a.Op == OAdd || a.Op == OAddNW {
			if a.Args[1] == b {
				return a.Args[0]
			}
			if a.Args[0] == b {
				return a.Args[1]
			}
		}
	case OMul:
		if isZero(a) || isZero(b) {
			return ConstI(0, s)
		}
		if a.IsConst() && a.Val.Cmp(big.NewInt(1)) == 0 {
			return b
		}
		if b.IsConst() && b.Val.Cmp(big.NewInt(1)) == 0 {
			return a
		}
	case OBitAnd:
		if isZero(a) || isZero(b) {
			return ConstI(0, s)
		}
		if a == b {
			return a
		}
	case OBitOr, OBitXor:
		if isZero(a) {
			return b
		}
		if isZero(b) {
			return a
		}
		// operands whose possibly-set bits are disjoint: | and ^ are addition (no carries)
		if !s.Signed || s.W == 64 {
			ma, mb := maybeBits(a, 0), maybeBits(b, 0)
			if ma != nil && mb != nil && new(big.Int).And(ma, mb).Sign() == 0 {
				top := new(big.Int).Or(ma, mb)
				if !s.Signed || top.Bit(s.W-1) == 0 {
					return TS.mk(OAddNW, s, "", nil, a, b)
				}
			}
		}
	case OBitAndNot:
		if isZero(b) {
			return a
		}
	}
	return TS.mk(op, s, "", nil, a, b)
}

func unsignedOf(t *Term) *big.Int {
	if t.Val.Sign() >= 0 {
		return new(big.Int).Set(t.Val)
	}
	return new(big.Int).Add(t.Val, new(big.Int).Lsh(big.NewInt(1), uint(t.Sort.W)))
}

func Add(a, b *Term) *Term   { return Arith(OAdd, a, b) }
func Sub(a, b *Term) *Term   { return Arith(OSub, a, b) }
func Mul(a, b *Term) *Term   { return Arith(OMul, a, b) }
func AddNW(a, b *Term) *Term { return Arith(OAddNW, a, b) }
func SubNW(a, b *Term) *Term { return Arith(OSubNW, a, b) }

func Neg(a *Term) *Term {
	if a.IsConst() {
		return Const(new(big.Int).Neg(a.Val), a.Sort)
	}
	return TS.mk(ONeg, a.Sort, "", nil, a)
}

func BitNot(a *Term) *Term {
	if a.IsConst() {
		return Const(new(big.Int).Not(a.Val), a.Sort)
	}
	return TS.mk(OBitNot, a.Sort, "", nil, a)
}

// Shift: b is the shift count (any unsigned/signed sort); result has a's sort.
func Shift(op Op, a, b *Term) *Term {
	if a.IsConst() && b.IsConst() && b.Val.Sign() >= 0 && b.Val.IsInt64() && b.Val.Int64() < 256 {
		n := uint(b.Val.Int64())
		if op == OShl {
			return Const(new(big.Int).Lsh(a.Val, n), a.Sort)
		}
		return Const(new(big.Int).Rsh(a.Val, n), a.Sort) // big.Rsh is arithmetic for negatives
	}
	return TS.mk(op, a.Sort, "", nil, a, b)
}

func Conv(a *Term, to *Sort) *Term {
	if a.Sort == to {
		return a
	}
	if a.Sort.Kind != SInt || to.Kind != SInt {
		panic("conv on non-int")
	}
	if a.IsConst() {
		return Const(a.Val, to)
	}
	return TS.mk(OConv, to, "", nil, a)
}

func (t *Term) String() string {
	var sb strings.Builder
	t.str(&sb, 0)
	return sb.String()
}

var StrDepth = 6

func (t *Term) str(sb *strings.Builder, depth int) {
	if depth > StrDepth {
		sb.WriteString("…")
		return
	}
	switch t.Op {
	case OConst:
		sb.WriteString(t.Val.String())
	case OVar:
		sb.WriteString(t.Name)
	case OTrue:
		sb.WriteString("true")
	case OFalse:
		sb.WriteString("false")
	default:
		names := map[Op]string{OApp: t.Name, OAdd: "+", OSub: "-", OMul: "*", ODiv: "/", ORem: "%", ONeg: "neg", OAddNW: "+'", OSubNW: "-'",
			OBitAnd: "&", OBitOr: "|", OBitXor: "^", OBitAndNot: "&^", OBitNot: "~", OShl: "<<", OShr: ">>", OConv: "conv:" + t.Sort.String(),
			OEq: "=", OLt: "<", OLe: "<=", OAnd: "and", OOr: "or", ONot: "not", OImp: "=>", OIte: "ite"}
		sb.WriteString("(")
		sb.WriteString(names[t.Op])
		for _, a := range t.Args {
			sb.WriteString(" ")
			a.str(sb, depth+1)
		}
		sb.WriteString(")")
	}
}

// ---------------------------------------------------------------------------------
// SMT printing

type Mode int

const (
	ModeInt Mode = iota
	ModeBV
)

type printer struct {
	mode            Mode
	sb              strings.Builder
	done            map[int]string
	decls           map[string]string // symbol -> declaration line
	dorder          []string
	defs            []string
	usesNIA         bool
	abstractBits    bool // variable-by-variable bitwise operators as uninterpreted functions (sound for proving)
	usedAbstraction bool
	// canonical naming: the text of a query depends only on the query, not on how many terms
	// and fresh symbols the process created before it (solver run times depend on names)
	localID  map[int]int
	symCanon map[string]string
	symCount map[string]int
}

var symNumRe = regexp.MustCompile(`![0-9]+`)

// canon renumbers the "!N" freshness suffixes of a symbol by order of first appearance.
func (p *printer) canon(name string) string {
	if !strings.Contains(name, "!") {
		return name
	}
	if c, ok := p.symCanon[name]; ok {
		return c
	}
	if p.symCanon == nil {
		p.symCanon = map[string]string{}
		p.symCount = map[string]int{}
	}
	stem := symNumRe.ReplaceAllString(name, "!")
	p.symCount[stem]++
	c := fmt.Sprintf("%s%d", stem, p.symCount[stem])
	p.symCanon[name] = c
	return c
}

func pow2(n int) *big.Int { return new(big.Int).Lsh(big.NewInt(1), uint(n)) }

func (p *printer) sortStr(s *Sort) string {
	if s.Kind == SBool {
		return "Bool"
	}
	if p.mode == ModeInt {
		return "Int"
	}
	return fmt.Sprintf("(_ BitVec %d)", s.W)
}

func (p *printer) constStr(v *big.Int, s *Sort) string {
	if p.mode == ModeInt {
		if v.Sign() < 0 {
			return "(- " + new(big.Int).Neg(v).String() + ")"
		}
		return v.String()
	}
	u := v
	if v.Sign() < 0 {
		u = new(big.Int).Add(v, pow2(s.W))
	}
	return fmt.Sprintf("(_ bv%s %d)", u.String(), s.W)
}

func (p *printer) num(v *big.Int) string {
	if v.Sign() < 0 {
		return "(- " + new(big.Int).Neg(v).String() + ")"
	}
	return v.String()
}

// wrap expression e (an Int-mode string) into sort s.
func (p *printer) wrap(e string, s *Sort) string {
	m := pow2(s.W).String()
	if !s.Signed {
		return fmt.Sprintf("(mod %s %s)", e, m)
	}
	// signed: ((e + 2^(w-1)) mod 2^w) - 2^(w-1)
	h := pow2(s.W - 1).String()
	return fmt.Sprintf("(- (mod (+ %s %s) %s) %s)", e, h, m, h)
}

// wrap for a value known to be within one modulus of the range (add/sub of in-range values)
func (p *printer) wrap1(e string, s *Sort) string {
	m := pow2(s.W).String()
	return fmt.Sprintf("(let ((w!v %s)) (ite (> w!v %s) (- w!v %s) (ite (< w!v %s) (+ w!v %s) w!v)))", e, p.num(s.Max()), m, p.num(s.Min()), m)
}

func (p *printer) declare(name, line string) {
	if _, ok := p.decls[name]; ok {
		return
	}
	p.decls[name] = line
	p.dorder = append(p.dorder, name)
}

func (p *printer) ref(t *Term) string {
	if s, ok := p.done[t.id]; ok {
		return s
	}
	var out string
	switch t.Op {
	case OTrue:
		out = "true"
	case OFalse:
		out = "false"
	case OConst:
		out = p.constStr(t.Val, t.Sort)
	case OVar:
		nm := "|" + p.canon(t.Name) + "|"
		p.declare(nm, fmt.Sprintf("(declare-fun %s () %s)", nm, p.sortStr(t.Sort)))
		if p.mode == ModeInt && t.Sort.Kind == SInt {
			p.declare(nm+"#range", fmt.Sprintf("(assert (and (<= %s %s) (<= %s %s)))", p.num(t.Sort.Min()), nm, nm, p.num(t.Sort.Max())))
		}
		out = nm
	case OApp:
		nm := "|" + p.canon(t.Name) + "|"
		var as []string
		var ss []string
		for _, a := range t.Args {
			as = append(as, p.ref(a))
			ss = append(ss, p.sortStr(a.Sort))
		}
		p.declare(nm, fmt.Sprintf("(declare-fun %s (%s) %s)", nm, strings.Join(ss, " "), p.sortStr(t.Sort)))
		if len(as) == 0 {
			out = nm
		} else {
			out = "(" + nm + " " + strings.Join(as, " ") + ")"
		}
		if p.mode == ModeInt && t.Sort.Kind == SInt {
			// range fact for this application instance
			nmDef := p.bind(t, out)
			p.defs = append(p.defs, fmt.Sprintf("(assert (and (<= %s %s) (<= %s %s)))", p.num(t.Sort.Min()), nmDef, nmDef, p.num(t.Sort.Max())))
			return nmDef
		}
	default:
		out = p.compound(t)
	}
	if len(t.Args) > 0 {
		return p.bind(t, out)
	}
	p.done[t.id] = out
	return out
}

func (p *printer) bind(t *Term, expr string) string {
	if p.localID == nil {
		p.localID = map[int]int{}
	}
	if _, ok := p.localID[t.id]; !ok {
		p.localID[t.id] = len(p.localID) + 1
	}
	nm := fmt.Sprintf("tm_%d", p.localID[t.id])
	p.defs = append(p.defs, fmt.Sprintf("(define-fun %s () %s %s)", nm, p.sortStr(t.Sort), expr))
	p.done[t.id] = nm
	return nm
}

func (p *printer) compound(t *Term) string {
	a := make([]string, len(t.Args))
	for i, x := range t.Args {
		a[i] = p.ref(x)
	}
	s := t.Sort
	switch t.Op {
	case OAnd:
		return "(and " + strings.Join(a, " ") + ")"
	case OOr:
		return "(or " + strings.Join(a, " ") + ")"
	case ONot:
		return "(not " + a[0] + ")"
	case OImp:
		return "(=> " + a[0] + " " + a[1] + ")"
	case OIte:
		return "(ite " + a[0] + " " + a[1] + " " + a[2] + ")"
	case OEq:
		return "(= " + a[0] + " " + a[1] + ")"
	}
	if p.mode == ModeInt {
		return p.compoundInt(t, a, s)
	}
	return p.compoundBV(t, a, s)
}

func (p *printer) compoundInt(t *Term, a []string, s *Sort) string {
	switch t.Op {
	case OLt:
		return "(< " + a[0] + " " + a[1] + ")"
	case OLe:
		return "(<= " + a[0] + " " + a[1] + ")"
	case OAdd:
		if noWrap(t) {
			return "(+ " + a[0] + " " + a[1] + ")"
		}
		return p.wrap1("(+ "+a[0]+" "+a[1]+")", s)
	case OSub:
		if noWrap(t) {
			return "(- " + a[0] + " " + a[1] + ")"
		}
		return p.wrap1("(- "+a[0]+" "+a[1]+")", s)
	case OAddNW:
		return "(+ " + a[0] + " " + a[1] + ")"
	case OSubNW:
		return "(- " + a[0] + " " + a[1] + ")"
	case ONeg:
		if noWrap(t) {
			return "(- " + a[0] + ")"
		}
		return p.wrap1("(- "+a[0]+")", s)
	case OMul:
		if !t.Args[0].IsConst() && !t.Args[1].IsConst() {
			p.usesNIA = true
		}
		if noWrap(t) {
			return "(* " + a[0] + " " + a[1] + ")"
		}
		return p.wrap("(* "+a[0]+" "+a[1]+")", s)
	case ODiv, ORem:
		if !t.Args[1].IsConst() {
			p.usesNIA = true
		}
		// Go truncated division; divisor != 0 is a separate obligation.
		q := fmt.Sprintf("(let ((d!a %s) (d!b %s)) (ite (>= d!a 0) (ite (> d!b 0) (div d!a d!b) (- (div d!a (- d!b)))) (ite (> d!b 0) (- (div (- d!a) d!b)) (div (- d!a) (- d!b)))))", a[0], a[1])
		if t.Op == ODiv {
			return p.wrap1(q, s) // MinInt / -1 wraps
		}
		return fmt.Sprintf("(- %s (* %s %s))", a[0], a[1], q)
	case OConv:
		from := t.Args[0].Sort
		if from.Min().Cmp(s.Min()) >= 0 && from.Max().Cmp(s.Max()) <= 0 {
			return a[0]
		}
		if noWrap(t) {
			return a[0]
		}
		if from.W == s.W || (from.W < s.W) {
			// same width reinterpretation or sign-extending into unsigned
			return p.wrap1x(a[0], from, s)
		}
		return p.wrap(a[0], s)
	case OBitAnd, OBitOr, OBitXor, OBitAndNot:
		return p.bitopInt(t, a, s)
	case OBitNot:
		// ^x = -x-1 (signed) ; max - x (unsigned)
		if s.Signed {
			return "(- (- " + a[0] + ") 1)"
		}
		return "(- " + p.num(s.Max()) + " " + a[0] + ")"
	case OShl, OShr:
		if t.Args[1].IsConst() {
			k := t.Args[1].Val
			if k.Sign() >= 0 && k.IsInt64() {
				n := int(k.Int64())
				if n >= s.W {
					if t.Op == OShl || !s.Signed {
						return "0"
					}
					return "(ite (< " + a[0] + " 0) (- 1) 0)"
				}
				if t.Op == OShl {
					if noWrap(t) {
						return "(* " + a[0] + " " + pow2(n).String() + ")"
					}
					return p.wrap("(* "+a[0]+" "+pow2(n).String()+")", s)
				}
				return "(div " + a[0] + " " + pow2(n).String() + ")"
			}
		}
		// variable shift: case split over 0..W-1
		cnt := a[1]
		var sb strings.Builder
		closes := 0
		for n := 0; n < s.W; n++ {
			var e string
			if t.Op == OShl {
				e = p.wrap("(* "+a[0]+" "+pow2(n).String()+")", s)
			} else {
				e = "(div " + a[0] + " " + pow2(n).String() + ")"
			}
			fmt.Fprintf(&sb, "(ite (= %s %d) %s ", cnt, n, e)
			closes++
		}
		if t.Op == OShl || !s.Signed {
			sb.WriteString("0")
		} else {
			sb.WriteString("(ite (< " + a[0] + " 0) (- 1) 0)")
		}
		sb.WriteString(strings.Repeat(")", closes))
		return sb.String()
	}
	panic(fmt.Sprintf("int printer: op %d", t.Op))
}

// conversion between same-width or widening where ranges are not nested: add/sub one modulus of target.
func (p *printer) wrap1x(e string, from, to *Sort) string {
	if from.W <= to.W {
		// value within one modulus of target range
		return p.wrap1(e, to)
	}
	return p.wrap(e, to)
}

// bits set in constant (as unsigned)
func maskRuns(u *big.Int, w int) [][2]int {
	var runs [][2]int
	i := 0
	for i < w {
		if u.Bit(i) == 1 {
			j := i
			for j < w && u.Bit(j) == 1 {
				j++
			}
			runs = append(runs, [2]int{i, j})
			i = j
		} else {
			i++
		}
	}
	return runs
}

func (p *printer) andConst(x string, c *Term, s *Sort) string {
	u := unsignedOf(c)
	runs := maskRuns(u, s.W)
	if len(runs) == 0 {
		return "0"
	}
	var parts []string
	for _, r := range runs {
		lo, hi := r[0], r[1]
		e := x
		if lo > 0 {
			e = "(div " + e + " " + pow2(lo).String() + ")"
		}
		e = "(mod " + e + " " + pow2(hi-lo).String() + ")"
		if lo > 0 {
			e = "(* " + e + " " + pow2(lo).String() + ")"
		}
		parts = append(parts, e)
	}
	var e string
	if len(parts) == 1 {
		e = parts[0]
	} else {
		e = "(+ " + strings.Join(parts, " ") + ")"
	}
	// result is the unsigned value of the masked bits; reinterpret for signed sorts
	if s.Signed && u.Bit(s.W-1) == 1 {
		return p.wrap1(e, s)
	}
	return e
}

func (p *printer) bitopInt(t *Term, a []string, s *Sort) string {
	x, y := t.Args[0], t.Args[1]
	xs, ys := a[0], a[1]
	if x.IsConst() && !y.IsConst() && t.Op != OBitAndNot {
		x, y = y, x
		xs, ys = ys, xs
	}
	if y.IsConst() {
		and := p.andConst(xs, y, s)
		switch t.Op {
		case OBitAnd:
			return and
		case OBitAndNot:
			return p.wrap1("(- "+xs+" "+and+")", s)
		case OBitOr:
			return p.wrap1("(- (+ "+xs+" "+ys+") "+and+")", s)
		case OBitXor:
			return p.wrap("(- (+ "+xs+" "+ys+") (* 2 "+and+"))", s)
		}
	}
	if x.IsConst() && t.Op == OBitAndNot {
		// c &^ y = c - (c & y)
		and := p.andConst(ys, x, s)
		return p.wrap1("(- "+xs+" "+and+")", s)
	}
	if p.abstractBits {
		p.usedAbstraction = true
		nm := fmt.Sprintf("|bitop%d_%d|", t.Op, s.W)
		p.declare(nm, fmt.Sprintf("(declare-fun %s (Int Int) Int)", nm))
		return "(" + nm + " " + xs + " " + ys + ")"
	}
	if s.W > 32 {
		panic(needBV{fmt.Sprintf("bitwise operator on two variable %d-bit operands", s.W)})
	}
	// bit-by-bit expansion on the unsigned views
	ux, uy := xs, ys
	if s.Signed {
		ux = "(mod " + xs + " " + pow2(s.W).String() + ")"
		uy = "(mod " + ys + " " + pow2(s.W).String() + ")"
	}
	var parts []string
	for i := 0; i < s.W; i++ {
		bx := fmt.Sprintf("(= (mod (div %s %s) 2) 1)", ux, pow2(i).String())
		by := fmt.Sprintf("(= (mod (div %s %s) 2) 1)", uy, pow2(i).String())
		var c string
		switch t.Op {
		case OBitAnd:
			c = "(and " + bx + " " + by + ")"
		case OBitOr:
			c = "(or " + bx + " " + by + ")"
		case OBitXor:
			c = "(xor " + bx + " " + by + ")"
		case OBitAndNot:
			c = "(and " + bx + " (not " + by + "))"
		}
		parts = append(parts, fmt.Sprintf("(ite %s %s 0)", c, pow2(i).String()))
	}
	e := "(+ " + strings.Join(parts, " ") + ")"
	if s.Signed {
		return p.wrap1(e, s)
	}
	return e
}

type needBV struct{ why string }

func (p *printer) compoundBV(t *Term, a []string, s *Sort) string {
	as := t.Args[0].Sort
	switch t.Op {
	case OLt:
		if as.Signed {
			return "(bvslt " + a[0] + " " + a[1] + ")"
		}
		return "(bvult " + a[0] + " " + a[1] + ")"
	case OLe:
		if as.Signed {
			return "(bvsle " + a[0] + " " + a[1] + ")"
		}
		return "(bvule " + a[0] + " " + a[1] + ")"
	case OAdd, OAddNW:
		return "(bvadd " + a[0] + " " + a[1] + ")"
	case OSub, OSubNW:
		return "(bvsub " + a[0] + " " + a[1] + ")"
	case ONeg:
		return "(bvneg " + a[0] + ")"
	case OMul:
		return "(bvmul " + a[0] + " " + a[1] + ")"
	case ODiv:
		if s.Signed {
			return "(bvsdiv " + a[0] + " " + a[1] + ")"
		}
		return "(bvudiv " + a[0] + " " + a[1] + ")"
	case ORem:
		if s.Signed {
			return "(bvsrem " + a[0] + " " + a[1] + ")"
		}
		return "(bvurem " + a[0] + " " + a[1] + ")"
	case OConv:
		from := t.Args[0].Sort
		if from.W == s.W {
			return a[0]
		}
		if from.W > s.W {
			return fmt.Sprintf("((_ extract %d 0) %s)", s.W-1, a[0])
		}
		if from.Signed {
			return fmt.Sprintf("((_ sign_extend %d) %s)", s.W-from.W, a[0])
		}
		return fmt.Sprintf("((_ zero_extend %d) %s)", s.W-from.W, a[0])
	case OBitAnd:
		return "(bvand " + a[0] + " " + a[1] + ")"
	case OBitOr:
		return "(bvor " + a[0] + " " + a[1] + ")"
	case OBitXor:
		return "(bvxor " + a[0] + " " + a[1] + ")"
	case OBitAndNot:
		return "(bvand " + a[0] + " (bvnot " + a[1] + "))"
	case OBitNot:
		return "(bvnot " + a[0] + ")"
	case OShl, OShr:
		cnt := a[1]
		cs := t.Args[1].Sort
		// Go: shift counts >= width give 0 (or sign fill); SMT bvshl/bvlshr/bvashr agree when count is same width.
		if cs.W < s.W {
			cnt = fmt.Sprintf("((_ zero_extend %d) %s)", s.W-cs.W, cnt)
		} else if cs.W > s.W {
			// saturate
			big := fmt.Sprintf("(bvuge %s (_ bv%d %d))", cnt, s.W, cs.W)
			cnt = fmt.Sprintf("(ite %s (_ bv%d %d) ((_ extract %d 0) %s))", big, s.W, s.W, s.W-1, cnt)
		}
		if t.Op == OShl {
			return "(bvshl " + a[0] + " " + cnt + ")"
		}
		if s.Signed {
			return "(bvashr " + a[0] + " " + cnt + ")"
		}
		return "(bvlshr " + a[0] + " " + cnt + ")"
	}
	panic(fmt.Sprintf("bv printer: op %d", t.Op))
}

// Query renders "hyps ∧ ¬goal" (or just the conjunction of asserts when goal is nil).
// getvals are terms whose values are requested when the answer is sat.
// AbstractBits: when set, Query renders bitwise operators on two variable operands as
// uninterpreted functions. An unsat answer is then still a proof (the abstraction only forgets
// facts); any other answer must be re-checked with the exact encoding.
var AbstractBits bool

// QueryUsedAbstraction reports whether the last Query call actually abstracted something.
var QueryUsedAbstraction bool

// QueryGoalMarker: the assertion to label in the rendered query (debugging aid).
var QueryGoalMarker *Term

func Query(mode Mode, asserts []*Term, getvals []*Term) (text string, err error) {
	defer func() {
		if r := recover(); r != nil {
			if nb, ok := r.(needBV); ok {
				err = fmt.Errorf("needs bv mode: %s", nb.why)
				return
			}
			panic(r)
		}
	}()
	p := &printer{mode: mode, done: map[int]string{}, decls: map[string]string{}, abstractBits: AbstractBits && mode == ModeInt}
	defer func() { QueryUsedAbstraction = p.usedAbstraction }()
	var body []string
	seenA := map[int]bool{}
	for _, a := range asserts {
		if seenA[a.id] || a.IsTrue() {
			continue
		}
		seenA[a.id] = true
		r := p.ref(a)
		if a == QueryGoalMarker {
			body = append(body, "; negated goal")
		}
		body = append(body, "(assert "+r+")")
	}
	var gv []string
	for _, g := range getvals {
		gv = append(gv, p.ref(g))
	}
	var sb strings.Builder
	sb.WriteString("(set-option :produce-models true)\n")
	if mode == ModeInt {
		if p.usesNIA {
			sb.WriteString("(set-logic UFNIA)\n")
		} else {
			sb.WriteString("(set-logic QF_UFLIA)\n")
		}
	} else {
		sb.WriteString("(set-logic QF_UFBV)\n")
	}
	// declarations first (range assertions after their symbol)
	for _, n := range p.dorder {
		sb.WriteString(p.decls[n])
		sb.WriteString("\n")
	}
	for _, d := range p.defs {
		sb.WriteString(d)
		sb.WriteString("\n")
	}
	for _, b := range body {
		sb.WriteString(b)
		sb.WriteString("\n")
	}
	sb.WriteString("(check-sat)\n")
	if len(gv) > 0 {
		// one get-value per term so a failure on one does not lose the rest
		for _, g := range gv {
			sb.WriteString("(get-value (" + g + "))\n")
		}
	}
	return sb.String(), nil
}

// FreeVars returns the free symbols of the given terms, sorted by name.
func FreeVars(ts ...*Term) []*Term {
	seen := map[int]bool{}
	var out []*Term
	var walk func(t *Term)
	walk = func(t *Term) {
		if seen[t.id] {
			return
		}
		seen[t.id] = true
		if t.Op == OVar {
			out = append(out, t)
		}
		for _, a := range t.Args {
			walk(a)
		}
	}
	for _, t := range ts {
		walk(t)
	}
	sort.Slice(out, func(i, j int) bool { return out[i].Name < out[j].Name })
	return out
}

// maybeBits: mask of the bits that may be set in t (as an unsigned value); nil = unknown.
func maybeBits(t *Term, depth int) *big.Int {
	if depth > 12 || t.Sort.Kind != SInt {
		return nil
	}
	w := t.Sort.W
	all := new(big.Int).Sub(pow2(w), big.NewInt(1))
	switch t.Op {
	case OConst:
		return unsignedOf(t)
	case OConv:
		from := t.Args[0].Sort
		if from.Signed {
			return nil
		}
		m := maybeBits(t.Args[0], depth+1)
		if m == nil {
			m = new(big.Int).Sub(pow2(from.W), big.NewInt(1))
		}
		return new(big.Int).And(m, all)
	case OShl:
		if t.Args[1].IsConst() && t.Args[1].Val.IsInt64() && t.Args[1].Val.Int64() >= 0 && t.Args[1].Val.Int64() < int64(w) {
			m := maybeBits(t.Args[0], depth+1)
			if m == nil {
				m = all
			}
			return new(big.Int).And(new(big.Int).Lsh(m, uint(t.Args[1].Val.Int64())), all)
		}
	case OShr:
		if !t.Sort.Signed && t.Args[1].IsConst() && t.Args[1].Val.IsInt64() && t.Args[1].Val.Int64() >= 0 {
			m := maybeBits(t.Args[0], depth+1)
			if m == nil {
				m = all
			}
			return new(big.Int).Rsh(m, uint(t.Args[1].Val.Int64()))
		}
	case OBitAnd:
		ma, mb := maybeBits(t.Args[0], depth+1), maybeBits(t.Args[1], depth+1)
		if ma == nil {
			return mb
		}
		if mb == nil {
			return ma
		}
		return new(big.Int).And(ma, mb)
	case OBitOr, OBitXor:
		ma, mb := maybeBits(t.Args[0], depth+1), maybeBits(t.Args[1], depth+1)
		if ma == nil || mb == nil {
			return nil
		}
		return new(big.Int).Or(ma, mb)
	case OAddNW:
		// produced by the disjoint-bits rewrite only when operands are disjoint
		ma, mb := maybeBits(t.Args[0], depth+1), maybeBits(t.Args[1], depth+1)
		if ma != nil && mb != nil && new(big.Int).And(ma, mb).Sign() == 0 {
			return new(big.Int).Or(ma, mb)
		}
	case OIte:
		ma, mb := maybeBits(t.Args[1], depth+1), maybeBits(t.Args[2], depth+1)
		if ma == nil || mb == nil {
			return nil
		}
		return new(big.Int).Or(ma, mb)
	}
	if !t.Sort.Signed && t.Sort.W < 64 {
		return all
	}
	return nil
}

// ---- interval analysis (int mode): a conservative value range per term, used to drop the
// wrap-around case split of an operation whose mathematical result cannot leave its sort ----

type interval struct{ lo, hi *big.Int }

var rngCache = map[int]interval{}

func sortRange(s *Sort) interval { return interval{s.Min(), s.Max()} }

func (iv interval) within(s *Sort) bool {
	return iv.lo.Cmp(s.Min()) >= 0 && iv.hi.Cmp(s.Max()) <= 0
}

func minBig(a, b *big.Int) *big.Int {
	if a.Cmp(b) <= 0 {
		return a
	}
	return b
}
func maxBig(a, b *big.Int) *big.Int {
	if a.Cmp(b) >= 0 {
		return a
	}
	return b
}

// mathRange: range of the un-wrapped mathematical result of t's top operation (ok=false when
// the operation is not one the printer wraps).
func mathRange(t *Term) (interval, bool) {
	switch t.Op {
	case OAdd, OAddNW:
		a, b := rng(t.Args[0]), rng(t.Args[1])
		return interval{new(big.Int).Add(a.lo, b.lo), new(big.Int).Add(a.hi, b.hi)}, true
	case OSub, OSubNW:
		a, b := rng(t.Args[0]), rng(t.Args[1])
		return interval{new(big.Int).Sub(a.lo, b.hi), new(big.Int).Sub(a.hi, b.lo)}, true
	case ONeg:
		a := rng(t.Args[0])
		return interval{new(big.Int).Neg(a.hi), new(big.Int).Neg(a.lo)}, true
	case OMul:
		a, b := rng(t.Args[0]), rng(t.Args[1])
		ps := []*big.Int{new(big.Int).Mul(a.lo, b.lo), new(big.Int).Mul(a.lo, b.hi), new(big.Int).Mul(a.hi, b.lo), new(big.Int).Mul(a.hi, b.hi)}
		lo, hi := ps[0], ps[0]
		for _, p := range ps[1:] {
			lo, hi = minBig(lo, p), maxBig(hi, p)
		}
		return interval{lo, hi}, true
	case OShl:
		if t.Args[1].IsConst() && t.Args[1].Val.Sign() >= 0 && t.Args[1].Val.IsInt64() && t.Args[1].Val.Int64() < int64(t.Sort.W) {
			a := rng(t.Args[0])
			n := uint(t.Args[1].Val.Int64())
			return interval{new(big.Int).Lsh(a.lo, n), new(big.Int).Lsh(a.hi, n)}, true
		}
	case OConv:
		return rng(t.Args[0]), true
	}
	return interval{}, false
}

func rng(t *Term) interval {
	if t.Sort == nil || t.Sort.Kind != SInt {
		return interval{big.NewInt(0), big.NewInt(1)}
	}
	if iv, ok := rngCache[t.id]; ok {
		return iv
	}
	full := sortRange(t.Sort)
	rngCache[t.id] = full // cycle/depth guard; overwritten below
	iv := full
	switch t.Op {
	case OConst:
		iv = interval{t.Val, t.Val}
	case OIte:
		a, b := rng(t.Args[1]), rng(t.Args[2])
		iv = interval{minBig(a.lo, b.lo), maxBig(a.hi, b.hi)}
	case OAddNW, OSubNW:
		iv, _ = mathRange(t)
	case OAdd, OSub, ONeg, OMul, OShl, OConv:
		if m, ok := mathRange(t); ok && m.within(t.Sort) {
			iv = m
		}
	case OShr:
		if t.Args[1].IsConst() && t.Args[1].Val.Sign() >= 0 && t.Args[1].Val.IsInt64() && t.Args[1].Val.Int64() < 256 {
			a := rng(t.Args[0])
			n := uint(t.Args[1].Val.Int64())
			iv = interval{new(big.Int).Rsh(a.lo, n), new(big.Int).Rsh(a.hi, n)}
		}
	case OBitAnd:
		// x & c with c >= 0: result in [0, c]; x & y with x >= 0: result in [0, x.hi]
		for i := 0; i < 2; i++ {
			c := rng(t.Args[i])
			if c.lo.Sign() >= 0 {
				if iv.lo.Sign() < 0 || iv.hi.Cmp(c.hi) > 0 {
					iv = interval{big.NewInt(0), minBig(iv.hi, c.hi)}
				}
			}
		}
	case ORem:
		b := rng(t.Args[1])
		a := rng(t.Args[0])
		if b.lo.Sign() > 0 {
			m := new(big.Int).Sub(b.hi, big.NewInt(1))
			if a.lo.Sign() >= 0 {
				iv = interval{big.NewInt(0), minBig(m, a.hi)}
			} else {
				iv = interval{new(big.Int).Neg(m), m}
			}
		}
	case ODiv:
		b := rng(t.Args[1])
		a := rng(t.Args[0])
		if b.lo.Sign() > 0 && a.lo.Sign() >= 0 {
			iv = interval{big.NewInt(0), a.hi}
		}
	}
	// never wider than the sort for wrapped operations
	if t.Op != OAddNW && t.Op != OSubNW {
		if iv.lo.Cmp(full.lo) < 0 || iv.hi.Cmp(full.hi) > 0 {
			iv = full
		}
	}
	rngCache[t.id] = iv
	return iv
}

// noWrap: the mathematical result of t's top operation provably stays inside t's sort.
func noWrap(t *Term) bool {
	m, ok := mathRange(t)
	return ok && m.within(t.Sort)
}

// relConds strips from each path condition the conjuncts all of them share. Selecting between
// merged values by the remainders is equivalent wherever the merged state's own path condition
// (which contains the shared part) holds, and keeps the selectors small.
func relConds(pcs []*Term) []*Term {
	if len(pcs) < 2 {
		return pcs
	}
	conj := func(t *Term) []*Term {
		if t.Op == OAnd {
			return t.Args
		}
		return []*Term{t}
	}
	count := map[int]int{}
	for _, p := range pcs {
		seen := map[int]bool{}
		for _, c := range conj(p) {
			if !seen[c.id] {
				seen[c.id] = true
				count[c.id]++
			}
		}
	}
	out := make([]*Term, len(pcs))
	for i, p := range pcs {
		var r []*Term
		for _, c := range conj(p) {
			if count[c.id] != len(pcs) {
				r = append(r, c)
			}
		}
		out[i] = And(r...)
	}
	return out
}

func splitFresh(name string) (string, int) {
	i := strings.LastIndex(name, "!")
	if i < 0 {
		return name, 0
	}
	n, err := strconv.Atoi(name[i+1:])
	if err != nil {
		return name, 0
	}
	return name[:i], n
}
