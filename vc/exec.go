package main

import (
	"fmt"
	"go/constant"
	"go/token"
	"go/types"
	"os"
	"sort"
	"strings"

	"golang.org/x/tools/go/ssa"
)

type Exec struct {
	softErr error // contract/code mismatch that matters only if every obligation is discharged
	structSel map[*SExpr]bool // contract selections of struct-typed fields (static property of the expression)
	headVals map[*ssa.Phi]Value // at a back edge: the values the iteration started with (x$head)
	P        *Program
	C        *Contracts
	fn       *ssa.Function
	fc       *FuncContract
	ctx      *VCtx
	entry    *State
	vals     map[ssa.Value]Value
	arrBases []arrBase
	depth    int    // inline depth
	prefix   string // obligation name prefix (for inlined callees)
	topName  string // key of the function being verified
	params   map[string]Value
	lets     map[string]Value
	defers   []*ssa.Defer
	parent   *Exec
	// loop structure
	headers       map[*ssa.BasicBlock]*loopInfo
	rpo           []*ssa.BasicBlock
	outEdges      map[*ssa.BasicBlock][]*State // per successor index
	blockIn       map[*ssa.BasicBlock]*State
	rets          []retPoint
	counts        map[string]int
	callOrd       map[string]int
	defaultProps  []string
	oldCtr        int
	invoked       map[string]bool // names of function-typed params tracked
	specMode      bool            // evaluating a contract expression: no obligations, no assumptions
	defSeen       map[ssa.Value]bool
	finalCells    map[ssa.Value]Value
	remembered    map[string]bool
	rememberedInt map[string]bool
	retEdge       string
	// path replay of return regions (see planSplits)
	splitJoin     map[*ssa.BasicBlock]bool
	inRegion      map[*ssa.BasicBlock]bool
	splitIn       map[*ssa.BasicBlock]*splitEdges
	retMode       int  // 0 normal, 1 merged run inside a split region (postconditions deferred), 2 path replay
	quiet         bool // path replay: no obligations except those of the return
	allowObl      bool
	pathNo        int
	replaySE      *splitEdges
	replayH0      int
	replayQ0      int
	nWF           int // number of hypotheses before the function's own requires were assumed
	extraRequires []*SExpr
	noReturnOK    bool
}

type retPoint struct {
	st    *State
	vals  []Value
	nhyps int
	hyps  []*Term // path replay: explicit hypothesis set (instead of hyps[:nhyps])
}

type splitEdges struct {
	edges []*State
	preds []*ssa.BasicBlock
	nhyps int // hypotheses known when the split block was reached
	nq    int
	narr  int // array bases whose layout facts are among those hypotheses
}

type loopInfo struct {
	header  *ssa.BasicBlock
	ordinal int
	blocks  map[*ssa.BasicBlock]bool
	phiVals map[*ssa.Phi]Value
	decr    *Term
	held    map[string]*Term
}

func (e *Exec) oblName(kind, label string) string {
	return e.prefix + kind + "/" + label
}

var srcCache = map[string][]string{}

func (e *Exec) srcLine(pos token.Pos) (string, string) {
	if !pos.IsValid() {
		return "", ""
	}
	p := e.P.Prog.Fset.Position(pos)
	lines, ok := srcCache[p.Filename]
	if !ok {
		b, err := os.ReadFile(p.Filename)
		if err == nil {
			lines = strings.Split(string(b), "\n")
		}
		srcCache[p.Filename] = lines
	}
	txt := ""
	if p.Line-1 < len(lines) && p.Line > 0 {
		txt = strings.TrimSpace(lines[p.Line-1])
	}
	return txt, fmt.Sprintf("%s:%d", strings.TrimPrefix(p.Filename, e.P.Repo+"/"), p.Line)
}

func (e *Exec) addObl(kind, label, clause string, props []string, st *State, goal *Term, pos token.Pos) *Obligation {
	if e.specMode {
		return nil
	}
	if r := e.root(); r.quiet && !r.allowObl {
		return nil
	}
	if goal.IsTrue() || st.pc.IsFalse() {
		// trivially discharged; still counted so that vacuity floors see it
		e.ctx.seq++
		o := &Obligation{Name: e.oblName(kind, label), Kind: kind, Props: props, Clause: clause, Goal: True, PC: st.pc, NHyps: len(e.ctx.hyps), NQ: len(e.ctx.qhyps), Seq: e.ctx.seq, Fn: e.topName}
		_, o.Pos = e.srcLine(pos)
		e.ctx.obls = append(e.ctx.obls, o)
		return o
	}
	e.ctx.seq++
	o := &Obligation{Name: e.oblName(kind, label), Kind: kind, Props: props, Clause: clause, Goal: goal, PC: st.pc, NHyps: len(e.ctx.hyps), NQ: len(e.ctx.qhyps), Seq: e.ctx.seq, Fn: e.topName}
	if r := e.root(); r.replaySE != nil {
		// path replay: what was known at the split point plus this path's own assumptions
		o.HypsX = append(append([]*Term{}, e.ctx.hyps[:r.replaySE.nhyps]...), e.ctx.hyps[r.replayH0:]...)
		o.QHypsX = append(append([]*QHyp{}, e.ctx.qhyps[:r.replaySE.nq]...), e.ctx.qhyps[r.replayQ0:]...)
		o.NQ = len(o.QHypsX)
	}
	_, o.Pos = e.srcLine(pos)
	e.ctx.obls = append(e.ctx.obls, o)
	return o
}

// safety obligation, named after the source line it guards
func (e *Exec) safe(kind string, st *State, goal *Term, pos token.Pos) {
	if e.specMode {
		return
	}
	txt, _ := e.srcLine(pos)
	root := e
	for root.parent != nil {
		root = root.parent
	}
	base := kind + ":" + txt
	root.counts[e.prefix+base]++
	label := fmt.Sprintf("%s#%d", base, root.counts[e.prefix+base])
	e.addObl("safe", label, kind, root.defaultProps, st, goal, pos)
	// after the check, execution continues only if it passed
	e.ctx.assume(Imp(st.pc, goal))
}

func NewExec(P *Program, C *Contracts, fn *ssa.Function) *Exec {
	e := &Exec{P: P, C: C, fn: fn, ctx: newVCtx(), vals: map[ssa.Value]Value{}, params: map[string]Value{}, lets: map[string]Value{},
		counts: map[string]int{}, callOrd: map[string]int{}, defSeen: map[ssa.Value]bool{}, finalCells: map[ssa.Value]Value{}, remembered: map[string]bool{}}
	e.topName = funcKey(fn)
	e.fc = C.lookup(e.topName)
	if e.fc == nil && fn.Origin() != nil {
		e.fc = C.lookup(funcKey(fn.Origin()))
	}
	if e.fc != nil {
		e.defaultProps = e.fc.Props
	}
	return e
}

// Verify runs the function and returns its obligations.
func (e *Exec) Verify() (obls []*Obligation, err error) {
	defer func() {
		if r := recover(); r != nil {
			if u, ok := r.(unsupported); ok {
				err = fmt.Errorf("%s: outside the supported subset: %s", shortKey(e.topName), u.msg)
				return
			}
			if s, ok := r.(specErr); ok {
				err = fmt.Errorf("%s: contract error: %s", shortKey(e.topName), string(s))
				return
			}
			panic(r)
		}
	}()
	st := &State{pc: True, mems: map[string]*Mem{}, famTags: map[string]famTag{}, baseTag: "0", allocTop: Var("allocTop0", Ref), refTop: Var("refTop0", Ref), ghost: map[string]*Term{}}
	e.ctx.assume(And(Le(ConstI(1, Ref), st.allocTop), Le(st.allocTop, ConstI(staticBase, Ref)), Le(ConstI(1, Ref), st.refTop), Le(st.refTop, ConstI(staticBase, Ref))))
	e.entry = st.clone()
	fn := e.fn
	// parameters
	for i, p := range fn.Params {
		v := e.freshValue(p.Name(), p.Type(), st)
		if i == 0 && fn.Signature.Recv() != nil {
			if pv, ok := v.(PtrV); ok {
				e.ctx.assume(Lt(ConstI(0, Ref), pv.Addr)) // methods are invoked on non-nil receivers
				e.ctx.assumes["receiver is non-nil"]++
			}
		}
		e.vals[p] = v
		e.params[p.Name()] = v
	}
	for _, fv := range fn.FreeVars {
		v := e.freshValue(fv.Name(), fv.Type(), st)
		if pv, ok := v.(PtrV); ok {
			e.ctx.assume(Lt(ConstI(0, Ref), pv.Addr))
		}
		e.vals[fv] = v
		e.params[fv.Name()] = v
	}
	e.initGhost(st)
	e.entry = st.clone()
	e.nWF = len(e.ctx.hyps)
	if pk := pkgOf(fn); pk != nil && !strings.HasPrefix(fn.Name(), "init") {
		for _, gi := range e.C.GlobalInvs {
			if gi.Pkg == pk.Path() {
				genv := e.newEnv(st, e.entry)
				genv.polarity = polAssume
				e.ctx.assume(genv.evalBool(gi.Clause.Expr))
				e.ctx.assumes["package-level "+gi.Global+" is written only by init(): "+gi.Clause.Text]++
			}
		}
	}
	if e.fc != nil {
		// remembered names are unconstrained until the program point that defines them
		for _, sa := range e.fc.Asserts {
			if sa.LetName != "" {
				e.remembered[sa.LetName] = true
				if sa.IntVal {
					if e.rememberedInt == nil {
						e.rememberedInt = map[string]bool{}
					}
					e.rememberedInt[sa.LetName] = true
				}
			}
		}
		env := e.newEnv(st, e.entry)
		for _, l := range e.fc.Lets {
			e.lets[l.Name] = env.eval(l.Expr)
		}
		for _, cl := range e.fc.Requires {
			env.polarity = polAssume
			e.ctx.assume(env.evalBool(cl.Expr))
		}
		// rely: a data-structure invariant assumed on entry and not checked at call sites; it is
		// listed among the unchecked assumptions of every property the function belongs to
		for _, cl := range e.fc.Relies {
			env.polarity = polAssume
			e.ctx.assume(env.evalBool(cl.Expr))
			e.ctx.assumes["rely (assumed invariant, not checked at call sites) in "+shortKey(e.topName)+": "+cl.Text]++
		}
		for _, x := range e.extraRequires {
			env.polarity = polAssume
			e.ctx.assume(env.evalBool(x))
		}
		e.refinePre(st)
	}
	out := e.run(st, nil)
	_ = out
	// vacuity: every site clause of the contract must have matched a program point, and every
	// loop clause a loop
	if e.fc != nil {
		for ai, sa := range e.fc.Asserts {
			if sa.LetName != "" || sa.Optional {
				continue // a remembered value that is never defined stays false
			}
			if e.counts[fmt.Sprintf("fired:site:%d:%s", ai, sa.When)] == 0 {
				// a tool error unless an obligation of the function fails anyway (then the
				// failure is what is reported: the code changed under the contract)
				e.softErr = fmt.Errorf("%s: contract clause '%s %s: %s' matches no program point", shortKey(e.topName), sa.When, sa.Pattern, sa.Clause.Text)
				break
			}
		}
		for n := range e.fc.Loops {
			found := false
			for _, li := range e.headers {
				if li.ordinal == n {
					found = true
				}
			}
			if !found {
				return nil, fmt.Errorf("%s: contract names loop %d, which does not exist", shortKey(e.topName), n)
			}
		}
	}
	return e.ctx.obls, nil
}

// run executes the body from state st. For a top-level run returns are checked against the
// contract; for an inlined run (args != nil) the merged return state and values are returned.
func (e *Exec) run(st *State, inlineArgs []Value) *retPoint {
	fn := e.fn
	if fn.Blocks == nil {
		e.errorf("function %s has no body", fn)
	}
	e.analyzeLoops()
	e.planSplits()
	e.outEdges = map[*ssa.BasicBlock][]*State{}
	e.blockIn = map[*ssa.BasicBlock]*State{}
	for _, b := range e.rpo {
		var in *State
		if b == fn.Blocks[0] {
			in = st
			if e.splitJoin[b] {
				e.splitIn[b] = &splitEdges{edges: []*State{st.clone()}, preds: []*ssa.BasicBlock{nil}, nhyps: len(e.ctx.hyps), nq: len(e.ctx.qhyps), narr: len(e.arrBases)}
			}
		} else {
			var edges []*State
			var preds []*ssa.BasicBlock
			for _, p := range b.Preds {
				if e.isBackEdge(p, b) {
					continue
				}
				outs, ok := e.outEdges[p]
				if !ok {
					continue // unreachable pred (not in rpo)
				}
				for si, s := range p.Succs {
					if s == b {
						edges = append(edges, outs[si])
						preds = append(preds, p)
					}
				}
			}
			if len(edges) == 0 {
				continue
			}
			// a block that only returns: check the postconditions per incoming edge, with the
			// unmerged state of that edge (smaller terms, one path family per obligation)
			if e.splitJoin[b] {
				se := &splitEdges{nhyps: len(e.ctx.hyps), nq: len(e.ctx.qhyps), narr: len(e.arrBases)}
				for k := range edges {
					se.edges = append(se.edges, edges[k].clone())
					se.preds = append(se.preds, preds[k])
				}
				e.splitIn[b] = se
			}
			fromRegion := false
			for _, p := range preds {
				if e.inRegion[p] {
					fromRegion = true
				}
			}
			if e.parent == nil && (len(edges) > 1 || fromRegion) && e.headers[b] == nil && onlyReturns(b) && !e.inRegion[b] {
				e.outEdges[b] = nil
				for k := range edges {
					if edges[k].pc.IsFalse() || e.inRegion[preds[k]] {
						continue // paths through a split region are checked by replaySplits
					}
					for _, ins := range b.Instrs {
						phi, ok := ins.(*ssa.Phi)
						if !ok {
							break
						}
						e.vals[phi] = e.phiValue(phi, b, []*State{edges[k]}, []*ssa.BasicBlock{preds[k]})
					}
					e.retEdge = fmt.Sprintf(".e%d", k+1)
					e.execBlock(b, edges[k].clone())
				}
				e.retEdge = ""
				continue
			}
			in = e.mergeInto(b, edges, preds)
		}
		if li := e.headers[b]; li != nil {
			in = e.enterLoop(li, in)
		}
		e.blockIn[b] = in
		e.execBlock(b, in)
	}
	e.replaySplits()
	if inlineArgs == nil && e.parent == nil {
		return nil
	}
	// merge returns
	if len(e.rets) == 0 {
		d := st.clone()
		d.pc = False
		return &retPoint{st: d}
	}
	var sts []*State
	for _, r := range e.rets {
		sts = append(sts, r.st)
	}
	merged := e.ctx.mergeStates(sts)
	var vals []Value
	var retPCs []*Term
	for _, r := range e.rets {
		retPCs = append(retPCs, r.st.pc)
	}
	retSel := relConds(retPCs)
	n := len(e.rets[0].vals)
	for i := 0; i < n; i++ {
		v := e.rets[len(e.rets)-1].vals[i]
		for j := len(e.rets) - 2; j >= 0; j-- {
			v = e.iteValue(retSel[j], e.rets[j].vals[i], v)
		}
		vals = append(vals, v)
	}
	return &retPoint{st: merged, vals: vals}
}

// mergeInto merges the states of forward in-edges of b and evaluates its phis.
func (e *Exec) mergeInto(b *ssa.BasicBlock, edges []*State, preds []*ssa.BasicBlock) *State {
	in := e.ctx.mergeStates(edges)
	if e.headers[b] != nil {
		// phis of loop headers are handled by enterLoop (entry values first)
		li := e.headers[b]
		li.phiVals = map[*ssa.Phi]Value{}
		for _, ins := range b.Instrs {
			phi, ok := ins.(*ssa.Phi)
			if !ok {
				break
			}
			li.phiVals[phi] = e.phiValue(phi, b, edges, preds)
		}
		return in
	}
	for _, ins := range b.Instrs {
		phi, ok := ins.(*ssa.Phi)
		if !ok {
			break
		}
		e.vals[phi] = e.phiValue(phi, b, edges, preds)
	}
	return in
}

func (e *Exec) phiValue(phi *ssa.Phi, b *ssa.BasicBlock, edges []*State, preds []*ssa.BasicBlock) Value {
	var v Value
	first := true
	// selectors: the path conditions of the live edges without their shared conjuncts
	var livePCs []*Term
	var liveIdx []int
	for k := range edges {
		if !edges[k].pc.IsFalse() {
			livePCs = append(livePCs, edges[k].pc)
			liveIdx = append(liveIdx, k)
		}
	}
	sel := map[int]*Term{}
	for i, r := range relConds(livePCs) {
		sel[liveIdx[i]] = r
	}
	for k := len(edges) - 1; k >= 0; k-- {
		if edges[k].pc.IsFalse() {
			continue
		}
		// operand index = index of pred in b.Preds
		var ev Value
		idx := -1
		cnt := 0
		for pi, p := range b.Preds {
			if p == preds[k] {
				// the same pred may appear twice (both branches to b); take the matching occurrence
				occ := 0
				for kk := 0; kk < k; kk++ {
					if preds[kk] == p {
						occ++
					}
				}
				if cnt == occ {
					idx = pi
					break
				}
				cnt++
			}
		}
		if idx < 0 {
			e.errorf("phi operand not found")
		}
		ev = e.val(phi.Edges[idx])
		if first {
			v = ev
			first = false
		} else {
			v = e.iteValue(sel[k], ev, v)
		}
	}
	if first {
		return e.zeroValue(phi.Type())
	}
	return v
}

func (e *Exec) iteValue(c *Term, a, b Value) Value {
	if c.IsTrue() {
		return a
	}
	if c.IsFalse() {
		return b
	}
	switch x := a.(type) {
	case Scalar:
		y := b.(Scalar)
		return Scalar{Ite(c, x.T, y.T)}
	case SliceV:
		y := b.(SliceV)
		return SliceV{Ptr: Ite(c, x.Ptr, y.Ptr), Len: Ite(c, x.Len, y.Len), Cap: Ite(c, x.Cap, y.Cap), Elem: x.Elem}
	case StringV:
		y := b.(StringV)
		return StringV{ID: Ite(c, x.ID, y.ID), Len: Ite(c, x.Len, y.Len)}
	case StructV:
		y := b.(StructV)
		out := StructV{T: x.T}
		for i := range x.Fields {
			out.Fields = append(out.Fields, e.iteValue(c, x.Fields[i], y.Fields[i]))
		}
		return out
	case ArrayV:
		y := b.(ArrayV)
		out := ArrayV{Elem: x.Elem}
		for i := range x.Elems {
			out.Elems = append(out.Elems, e.iteValue(c, x.Elems[i], y.Elems[i]))
		}
		return out
	case TupleV:
		y := b.(TupleV)
		var out TupleV
		for i := range x {
			out = append(out, e.iteValue(c, x[i], y[i]))
		}
		return out
	case IfaceV:
		y := b.(IfaceV)
		return IfaceV{ID: Ite(c, x.ID, y.ID)}
	case FuncV:
		y := b.(FuncV)
		if x.ID == y.ID {
			return x
		}
		return FuncV{ID: Ite(c, x.ID, y.ID)}
	case PtrV:
		y := b.(PtrV)
		if x.Addr == y.Addr && x.Key == y.Key && x.Kind == y.Kind {
			return x
		}
		if x.Kind != y.Kind || x.Key != y.Key {
			// one side may be a nil pointer of generic kind
			if isZero(y.Addr) {
				r := x
				r.Addr = Ite(c, x.Addr, y.Addr)
				return r
			}
			if isZero(x.Addr) {
				r := y
				r.Addr = Ite(c, x.Addr, y.Addr)
				return r
			}
			e.errorf("phi of pointers into different families (%s vs %s)", x.Key, y.Key)
		}
		r := x
		r.Addr = Ite(c, x.Addr, y.Addr)
		return r
	}
	e.errorf("ite of %T", a)
	return nil
}

// Loop analysis ---------------------------------------------------------------------

func (e *Exec) isBackEdge(from, to *ssa.BasicBlock) bool { return to.Dominates(from) }

func (e *Exec) analyzeLoops() {
	fn := e.fn
	e.headers = map[*ssa.BasicBlock]*loopInfo{}
	// reverse postorder over forward edges
	seen := map[*ssa.BasicBlock]bool{}
	var post []*ssa.BasicBlock
	var dfs func(b *ssa.BasicBlock)
	dfs = func(b *ssa.BasicBlock) {
		seen[b] = true
		for _, s := range b.Succs {
			if !seen[s] && !e.isBackEdge(b, s) {
				dfs(s)
			}
		}
		post = append(post, b)
	}
	dfs(fn.Blocks[0])
	// blocks reachable only through back edges do not exist in reducible CFGs
	for i := len(post) - 1; i >= 0; i-- {
		e.rpo = append(e.rpo, post[i])
	}
	for _, b := range fn.Blocks {
		for _, s := range b.Succs {
			if seen[b] && e.isBackEdge(b, s) {
				li := e.headers[s]
				if li == nil {
					li = &loopInfo{header: s, blocks: map[*ssa.BasicBlock]bool{s: true}}
					e.headers[s] = li
				}
				// natural loop: all blocks that reach b without passing through s
				var stack []*ssa.BasicBlock
				if !li.blocks[b] {
					li.blocks[b] = true
					stack = append(stack, b)
				}
				for len(stack) > 0 {
					x := stack[len(stack)-1]
					stack = stack[:len(stack)-1]
					for _, p := range x.Preds {
						if !li.blocks[p] {
							li.blocks[p] = true
							stack = append(stack, p)
						}
					}
				}
			}
		}
	}
	// ordinals by source position of the header's first positioned instruction
	var hs []*loopInfo
	for _, li := range e.headers {
		hs = append(hs, li)
	}
	sort.Slice(hs, func(i, j int) bool { return loopPos(hs[i]) < loopPos(hs[j]) })
	for i, li := range hs {
		li.ordinal = i + 1
	}
}

func loopPos(li *loopInfo) token.Pos {
	best := token.Pos(1 << 30)
	for b := range li.blocks {
		for _, ins := range b.Instrs {
			if p := ins.Pos(); p.IsValid() && p < best {
				best = p
			}
		}
	}
	return best
}

func (e *Exec) loopSpec(li *loopInfo) *LoopSpec {
	if e.parent != nil {
		// executed in place: the function under verification supplies the invariant
		if rfc := e.root().fc; rfc != nil {
			for k, ls := range rfc.InlineLoops {
				h := strings.LastIndex(k, "#")
				if k[h+1:] == fmt.Sprint(li.ordinal) && strings.Contains(funcKey(e.fn), k[:h]) {
					return ls
				}
			}
		}
	}
	if e.fc == nil {
		return nil
	}
	return e.fc.Loops[li.ordinal]
}

// enterLoop: check invariants on entry, havoc what the loop writes, assume invariants.
func (e *Exec) enterLoop(li *loopInfo, in *State) *State {
	ls := e.loopSpec(li)
	if ls == nil {
		e.errorf("loop %d has no invariant (every loop of a function under contract needs one)", li.ordinal)
	}
	// entry obligations with the entry values of the phis
	for phi, v := range li.phiVals {
		e.vals[phi] = v
	}
	env := e.newEnv(in, e.entry)
	env.block = li.header
	for k, cl := range ls.Invariants {
		e.invObligations(env, cl, k, li, "entry", in, li.header.Instrs[0].Pos())
	}
	for k, cl := range ls.Starts {
		e.invObligations(env, cl, k, li, "starts", in, li.header.Instrs[0].Pos())
	}
	// havoc
	st := in.clone()
	ws := e.loopWriteSet(li)
	e.havocSet(st, ws, fmt.Sprintf("loop%d", li.ordinal))
	for _, ins := range li.header.Instrs {
		phi, ok := ins.(*ssa.Phi)
		if !ok {
			break
		}
		e.vals[phi] = e.freshValue(phiName(phi), phi.Type(), st)
	}
	// ghost counters may change in the loop
	li.held = map[string]*Term{}
	for _, k := range sortedKeys(st.ghost) {
		if strings.HasPrefix(k, "held:") {
			li.held[k] = st.ghost[k] // lock state is loop-invariant (checked at the back edge)
			continue
		}
		st.ghost[k] = Fresh("ghost."+k, I64)
	}
	env = e.newEnv(st, e.entry)
	env.block = li.header
	for _, cl := range ls.Invariants {
		env.polarity = polAssume
		e.ctx.assume(Imp(st.pc, env.evalBool(cl.Expr)))
	}
	if ls.Decreases != nil {
		env.polarity = polProve
		v := env.eval(ls.Decreases.Expr)
		li.decr = e.scalarOf(v)
	}
	return st
}

// loopPos: a source position for obligations about the loop as a whole
func (e *Exec) loopPos(li *loopInfo) token.Pos {
	for _, ins := range li.header.Instrs {
		if ins.Pos().IsValid() {
			return ins.Pos()
		}
	}
	for _, b := range e.fn.Blocks {
		if b.Idom() == li.header || b == li.header {
			for _, ins := range b.Instrs {
				if ins.Pos().IsValid() {
					return ins.Pos()
				}
			}
		}
	}
	return e.fn.Pos()
}

func phiName(phi *ssa.Phi) string {
	if phi.Comment != "" {
		return phi.Comment
	}
	return phi.Name()
}

func clauseLabel(cl *Clause, k int) string {
	if cl.Label != "" {
		return cl.Label
	}
	return fmt.Sprintf("%d", k+1)
}

// back edge: invariants must hold again (with the phi operands of this edge)
func (e *Exec) closeLoop(li *loopInfo, from *ssa.BasicBlock, st *State) {
	ls := e.loopSpec(li)
	saved := map[*ssa.Phi]Value{}
	idx := -1
	for pi, p := range li.header.Preds {
		if p == from {
			idx = pi
		}
	}
	var decrOld *Term = li.decr
	for _, ins := range li.header.Instrs {
		phi, ok := ins.(*ssa.Phi)
		if !ok {
			break
		}
		saved[phi] = e.vals[phi]
	}
	newVals := map[*ssa.Phi]Value{}
	for phi := range saved {
		newVals[phi] = e.val(phi.Edges[idx])
	}
	for phi, v := range newVals {
		e.vals[phi] = v
	}
	env := e.newEnv(st, e.entry)
	env.block = li.header
	for k, cl := range ls.Invariants {
		e.invObligations(env, cl, k, li, "step", st, from.Instrs[len(from.Instrs)-1].Pos())
	}
	if len(ls.Steps) > 0 {
		e.headVals = saved
		for k, cl := range ls.Steps {
			e.invObligations(env, cl, k, li, "advances", st, e.loopPos(li))
		}
		e.headVals = nil
	}
	for _, k := range sortedKeys(st.ghost) {
		v := st.ghost[k]
		if strings.HasPrefix(k, "held:") {
			h0, ok := li.held[k]
			if !ok {
				h0 = ConstI(0, I64)
			}
			e.addObl("lock", fmt.Sprintf("loop%d-balanced", li.ordinal), "lock state at the end of a loop iteration equals the state at its start", e.root().defaultProps, st, Eq(v, h0), from.Instrs[len(from.Instrs)-1].Pos())
		}
	}
	if ls.Decreases != nil {
		env.polarity = polProve
		nv := e.scalarOf(env.eval(ls.Decreases.Expr))
		g := And(Lt(nv, decrOld), Le(ConstI(0, nv.Sort), decrOld))
		e.addObl("decr", fmt.Sprintf("loop%d", li.ordinal), ls.Decreases.Text, e.root().defaultProps, st, g, from.Instrs[len(from.Instrs)-1].Pos())
	}
	for phi, v := range saved {
		e.vals[phi] = v
	}
}

// Blocks ----------------------------------------------------------------------------

func (e *Exec) execBlock(b *ssa.BasicBlock, in *State) {
	st := in.clone()
	for _, ins := range b.Instrs {
		if st.pc.IsFalse() {
			break
		}
		e.atSite(ins, st)
		switch x := ins.(type) {
		case *ssa.Phi:
			// done at merge
		case *ssa.DebugRef:
			if e.parent == nil && e.fc != nil && !x.IsAddr && x.Object() != nil {
				if _, isPhi := x.X.(*ssa.Phi); !isPhi {
					if _, done := e.defSeen[x.X]; !done {
						if _, computed := e.vals[x.X]; computed {
							e.defSeen[x.X] = true
							e.siteAsserts(x, x.Object().Name(), nil, st, "def", nil)
						}
					}
				}
			}
		case *ssa.If:
			c := e.scalarOf(e.val(x.Cond))
			t := st.clone()
			t.pc = And(st.pc, c)
			f := st.clone()
			f.pc = And(st.pc, Not(c))
			e.finishEdges(b, []*State{t, f})
			return
		case *ssa.Jump:
			e.finishEdges(b, []*State{st})
			return
		case *ssa.Return:
			e.doReturn(x, st)
			e.outEdges[b] = nil
			return
		case *ssa.Panic:
			txt, _ := e.srcLine(x.Pos())
			root := e.root()
			root.counts["panic:"+txt]++
			e.addObl("safe", fmt.Sprintf("panic:%s#%d", txt, root.counts["panic:"+txt]), "explicit panic is unreachable", root.defaultProps, st, False, x.Pos())
			e.outEdges[b] = nil
			return
		default:
			e.execInstr(ins, st)
		}
	}
	if st.pc.IsFalse() {
		outs := make([]*State, len(b.Succs))
		for i := range outs {
			outs[i] = st
		}
		e.outEdges[b] = outs
	}
}

func (e *Exec) root() *Exec {
	r := e
	for r.parent != nil {
		r = r.parent
	}
	return r
}

func (e *Exec) finishEdges(b *ssa.BasicBlock, outs []*State) {
	e.outEdges[b] = outs
	for si, s := range b.Succs {
		if e.isBackEdge(b, s) {
			li := e.headers[s]
			if li != nil && !outs[si].pc.IsFalse() {
				e.closeLoop(li, b, outs[si])
			}
		}
	}
}

func (e *Exec) doReturn(r *ssa.Return, st *State) {
	var vals []Value
	for _, x := range r.Results {
		vals = append(vals, e.val(x))
	}
	// deferred calls registered in the entry block run here, LIFO
	for i := len(e.defers) - 1; i >= 0; i-- {
		d := e.defers[i]
		e.doCall(d, &d.Call, st)
	}
	if e.parent != nil {
		e.rets = append(e.rets, retPoint{st: st, vals: vals})
		return
	}
	if e.retMode != 2 {
		e.rets = append(e.rets, retPoint{st: st, vals: vals, nhyps: len(e.ctx.hyps)})
	} else if e.replaySE != nil {
		hx := append(append([]*Term{}, e.ctx.hyps[:e.replaySE.nhyps]...), e.ctx.hyps[e.replayH0:]...)
		e.rets = append(e.rets, retPoint{st: st, vals: vals, hyps: hx})
	}
	if e.fc == nil {
		return
	}
	if e.retMode == 0 && e.inRegion[r.Block()] {
		// merged run through a split region: the conditions at this return are checked
		// path by path afterwards (replaySplits)
		return
	}
	if e.retMode == 2 {
		e.pathNo++
		e.retEdge = fmt.Sprintf(".p%d", e.pathNo)
		e.allowObl = true
		defer func() { e.allowObl = false; e.retEdge = "" }()
	}
	// ghost updates take effect at the return, simultaneously
	if len(e.fc.Ghosts) > 0 {
		before := st.clone()
		genv := e.newEnv(before, e.entry)
		genv.results = vals
		genv.resultNames = resultNames(e.fn)
		genv.block = r.Block()
		for _, gu := range e.fc.Ghosts {
			gu := gu
			m := e.ctx.family(st, "ghost:"+gu.Map, I64)
			st.mems["ghost:"+gu.Map] = m.Lambda(func(addr *Term) *Term {
				ev := *genv
				ev.vars = map[string]Value{gu.Var: Scalar{addr}}
				return e.toI64(ev.eval(gu.Expr))
			})
		}
	}
	env := e.newEnv(st, e.entry)
	env.results = vals
	env.resultNames = resultNames(e.fn)
	for k, cl := range e.fc.Ensures {
		parts := e.splitConj(env, cl.Expr, nil, 0)
		for pi, pt := range parts {
			env.polarity = polProve
			pe := *env
			pe.vars = pt.vars
			pe.site = pt.site
			if pt.pkg != nil {
				pe.pkg = pt.pkg
			}
			g := pe.evalBool(pt.x)
			label := clauseLabel(cl, k) + e.retSuffix(r)
			text := cl.Text
			if len(parts) > 1 {
				label = fmt.Sprintf("%s.%d", label, pi+1)
				text = pt.x.String() + "   [part of: " + cl.Text + "]"
			}
			e.addObl("post", label, text, e.fc.clauseProps(cl), st, g, r.Pos())
		}
	}
	for _, k := range sortedKeys(st.ghost) {
		v := st.ghost[k]
		if strings.HasPrefix(k, "held:") {
			e.addObl("lock", "released"+e.retSuffix(r), "every mutex taken by the function is released when it returns", e.fc.Props, st, Eq(v, ConstI(0, I64)), r.Pos())
		}
	}
	for _, cs := range e.fc.Consumes {
		cenv := e.newEnv(st, e.entry)
		cenv.results = vals
		cenv.resultNames = resultNames(e.fn)
		cenv.polarity = polProve
		// the function value is the one named at entry
		oenv := *cenv
		oenv.inOld = true
		id := e.scalarOf(oenv.eval(cs.Expr))
		cnt := Sub(e.invGet(st, id), e.invGet(e.entry, id))
		goal := Eq(cnt, ConstI(1, I64))
		if cs.Unless != nil {
			deferred := cenv.withNeg(func() *Term { return cenv.evalBool(cs.Unless) })
			goal = Or(goal, And(Eq(cnt, ConstI(0, I64)), deferred))
		}
		props := cs.Props
		if len(props) == 0 {
			props = e.fc.Props
		}
		e.addObl("once", cs.Name+e.retSuffix(r), "exactly once: invoked("+cs.Name+") == 1, or not invoked and deferred   ["+cs.Text+"]", props, st, goal, r.Pos())
	}
	e.refinePost(st, vals, r)
	if e.fc.HasModifies {
		e.frameObligations(st, r.Pos())
	}
}

// ifaceEnv: environment in which an interface contract is evaluated for this implementation
// (interface parameter names bound positionally to the implementation's parameters).
func (e *Exec) ifaceEnv(ifc *FuncContract, cur, old *State) *Env {
	env := e.newEnv(cur, old)
	env.site = true
	if pk := e.P.SPkgs[ifc.Pkg]; pk != nil {
		env.pkg = pk.Pkg
	}
	names := ifc.ParamNames
	params := e.fn.Params
	if e.fn.Signature.Recv() != nil && len(params) > 0 {
		env.vars["recv"] = e.vals[params[0]]
		params = params[1:]
	}
	for i, p := range params {
		if i < len(names) && names[i] != "" {
			env.vars[names[i]] = e.vals[p]
		}
	}
	return env
}

func (e *Exec) ifaceContracts() []*FuncContract {
	var out []*FuncContract
	for _, k := range e.fc.Implements {
		ifc := e.C.Funcs[k]
		if ifc == nil {
			panic(specErr("implements: no contract " + k))
		}
		if ifc.ParamNames == nil {
			ifc.ParamNames = e.ifaceParamNames(k)
		}
		out = append(out, ifc)
	}
	return out
}

// ifaceParamNames finds the parameter names of the interface method named by key.
func (e *Exec) ifaceParamNames(key string) []string {
	k := strings.TrimPrefix(key, "iface:")
	dot := strings.LastIndex(k, ".")
	meth := k[dot+1:]
	tpath := k[:dot]
	d2 := strings.LastIndex(tpath, ".")
	pkgPath, tname := tpath[:d2], tpath[d2+1:]
	sp := e.P.SPkgs[pkgPath]
	if sp == nil {
		panic(specErr("implements: package " + pkgPath + " not loaded"))
	}
	obj := sp.Pkg.Scope().Lookup(tname)
	if obj == nil {
		panic(specErr("implements: type " + tname + " not found"))
	}
	it, ok := obj.Type().Underlying().(*types.Interface)
	if !ok {
		panic(specErr("implements: " + tname + " is not an interface"))
	}
	for i := 0; i < it.NumMethods(); i++ {
		if it.Method(i).Name() == meth {
			return sigParamNames(it.Method(i).Type().(*types.Signature))
		}
	}
	panic(specErr("implements: method " + meth + " not found"))
}

// refinePre: the interface's precondition implies the implementation's (weaker precondition).
func (e *Exec) refinePre(st *State) {
	for _, ifc := range e.ifaceContracts() {
		ienv := e.ifaceEnv(ifc, st, e.entry)
		hyp := True
		for _, cl := range ifc.Requires {
			ienv.polarity = polProve // no quantifier registration; requires are quantifier-free here
			hyp = And(hyp, ienv.evalBool(cl.Expr))
		}
		env := e.newEnv(st, e.entry)
		for k, cl := range e.fc.Requires {
			env.polarity = polProve
			g := env.evalBool(cl.Expr)
			// proved from the interface precondition alone: obligation recorded before the
			// implementation's own requires were assumed is not possible here, so the goal is
			// hyp ==> g under a path condition of true and with no hypotheses of its own.
			e.ctx.seq++
			o := &Obligation{Name: e.oblName("refines-pre", shortKey(ifc.Key)+"/"+clauseLabel(cl, k)), Kind: "refines", Props: e.fc.clauseProps(cl),
				Clause: "interface requires ==> " + cl.Text, Goal: Imp(hyp, g), PC: True, NHyps: e.nWF, NQ: 0, Seq: e.ctx.seq, Fn: e.topName}
			e.ctx.obls = append(e.ctx.obls, o)
		}
	}
}

// refinePost: the implementation establishes the interface's postconditions.
func (e *Exec) refinePost(st *State, vals []Value, r *ssa.Return) {
	for _, ifc := range e.ifaceContracts() {
		ienv := e.ifaceEnv(ifc, st, e.entry)
		ienv.results = vals
		for k, cl := range ifc.Ensures {
			ienv.polarity = polProve
			g := ienv.evalBool(cl.Expr)
			props := cl.Props
			if len(props) == 0 {
				props = e.fc.Props
			}
			e.addObl("refines", shortKey(ifc.Key)+"/"+clauseLabel(cl, k)+e.retSuffix(r), cl.Text, props, st, g, r.Pos())
		}
	}
}

func resultNames(fn *ssa.Function) []string {
	var out []string
	res := fn.Signature.Results()
	for i := 0; i < res.Len(); i++ {
		out = append(out, res.At(i).Name())
	}
	return out
}

// Values ----------------------------------------------------------------------------

func (e *Exec) val(v ssa.Value) Value {
	if x, ok := e.vals[v]; ok {
		return x
	}
	switch c := v.(type) {
	case *ssa.Const:
		return e.constValue(c)
	case *ssa.Function:
		return FuncV{ID: e.funcID(c), Static: c}
	case *ssa.Global:
		return e.globalPtr(c)
	case *ssa.Builtin:
		e.errorf("builtin %s used as value", c.Name())
	}
	e.errorf("value %s (%T) not computed", v.Name(), v)
	return nil
}

func (e *Exec) funcID(f *ssa.Function) *Term {
	t := Var("fn:"+funcKey(f), Ref)
	return t
}

func (e *Exec) globalPtr(g *ssa.Global) PtrV {
	elem := g.Type().(*types.Pointer).Elem()
	name := "global:" + g.Pkg.Pkg.Path() + "." + g.Name()
	switch under(elem).(type) {
	case *types.Struct:
		e.ctx.assume(Lt(ConstI(0, Ref), Var(name, Ref)))
		return PtrV{Kind: pObj, Addr: Var(name, Ref), T: elem, FirstClass: true}
	case *types.Array:
		au := under(elem).(*types.Array)
		base := Var(name, Ref)
		e.ctx.assume(And(Le(ConstI(staticBase, Ref), base), Le(AddNW(base, ConstI(au.Len(), Ref)), ConstI(staticBase*2, Ref))))
		return PtrV{Kind: pArr, Key: "elem:" + typeName(au.Elem()), Addr: base, T: elem}
	}
	return PtrV{Kind: pLoc, Key: name, Addr: ConstI(1, Ref), T: elem}
}

func (e *Exec) constValue(c *ssa.Const) Value {
	t := c.Type()
	if c.Value == nil {
		return e.zeroValue(t)
	}
	switch u := under(t).(type) {
	case *types.Basic:
		switch {
		case u.Info()&types.IsBoolean != 0:
			return Scalar{BoolT(constant.BoolVal(c.Value))}
		case u.Info()&types.IsInteger != 0:
			s := sortOfBasic(u)
			bi, ok := constant.Val(constant.ToInt(c.Value)).(interface{ String() string })
			_ = bi
			_ = ok
			return Scalar{Const(bigOfConst(c.Value), s)}
		case u.Info()&types.IsString != 0:
			sv := constant.StringVal(c.Value)
			return StringV{ID: e.stringID(sv), Len: ConstI(int64(len(sv)), I64)}
		case u.Info()&types.IsFloat != 0:
			return Scalar{Var("float:"+c.Value.ExactString(), Ref)}
		}
	}
	e.errorf("constant of type %s", t)
	return nil
}

var stringIDs = map[string]int64{}

func (e *Exec) stringID(s string) *Term {
	if s == "" {
		return ConstI(0, Ref)
	}
	id, ok := stringIDs[s]
	if !ok {
		id = int64(len(stringIDs) + 1)
		stringIDs[s] = id
	}
	return ConstI(id, Ref)
}

type conjPart struct {
	x    *SExpr
	vars map[string]Value
	site bool
	pkg  *types.Package
}

// splitConj flattens top-level conjunctions (looking through predicate applications) so that
// each conjunct becomes its own obligation: smaller queries and precise failure reports.
func (e *Exec) splitConj(env *Env, x *SExpr, vars map[string]Value, depth int) []conjPart {
	if vars == nil {
		vars = env.vars
	}
	mk := func(y *SExpr) []conjPart {
		return []conjPart{{x: y, vars: vars, site: env.site, pkg: env.pkg}}
	}
	if x.Kind == SBinary && x.Op == "&&" {
		return append(e.splitConj(env, x.Args[0], vars, depth), e.splitConj(env, x.Args[1], vars, depth)...)
	}
	if x.Kind == SCall && depth < 3 {
		var pd *PredDef
		f := x.Args[0]
		sub := *env
		sub.vars = vars
		if f.Kind == SIdent {
			pd = sub.lookupPred(f.Name)
		} else if f.Kind == SSel && f.Args[0].Kind == SIdent {
			if pk := sub.lookupPkg(f.Args[0].Name); pk != nil {
				pd = e.C.Preds[pk.Path()+"."+f.Name]
			}
		}
		if pd != nil && len(x.Args)-1 == len(pd.Params) {
			nv := map[string]Value{}
			for i, a := range x.Args[1:] {
				nv[pd.Params[i]] = sub.eval(a)
			}
			penv := sub
			penv.site = true
			if pk := e.P.SPkgs[pd.Pkg]; pk != nil {
				penv.pkg = pk.Pkg
			}
			parts := e.splitConj(&penv, pd.Body, nv, depth+1)
			return parts
		}
	}
	return mk(x)
}

// retSuffix distinguishes the return statements of a function (ordinal in source order).
func (e *Exec) retSuffix(r *ssa.Return) string {
	var rets []*ssa.Return
	for _, b := range e.fn.Blocks {
		if len(b.Instrs) > 0 {
			if x, ok := b.Instrs[len(b.Instrs)-1].(*ssa.Return); ok {
				rets = append(rets, x)
			}
		}
	}
	if len(rets) <= 1 {
		return e.retEdge
	}
	sort.Slice(rets, func(i, j int) bool { return rets[i].Pos() < rets[j].Pos() })
	for i, x := range rets {
		if x == r {
			return fmt.Sprintf("@ret%d", i+1) + e.retEdge
		}
	}
	return ""
}

// invObligations: one obligation per top-level conjunct of a loop invariant clause.
func (e *Exec) invObligations(env *Env, cl *Clause, k int, li *loopInfo, phase string, st *State, pos token.Pos) {
	parts := e.splitConj(env, cl.Expr, nil, 0)
	for pi, pt := range parts {
		pe := *env
		pe.vars = pt.vars
		pe.site = pt.site
		if pt.pkg != nil {
			pe.pkg = pt.pkg
		}
		if pt.site {
			pe.block = nil
		}
		pe.polarity = polProve
		g := pe.evalBool(pt.x)
		label := fmt.Sprintf("loop%d/%s/%s", li.ordinal, clauseLabel(cl, k), phase)
		text := cl.Text
		if len(parts) > 1 {
			label = fmt.Sprintf("loop%d/%s.%d/%s", li.ordinal, clauseLabel(cl, k), pi+1, phase)
			text = pt.x.String() + "   [part of: " + cl.Text + "]"
		}
		props := e.root().defaultProps
		if e.fc != nil && e.parent == nil {
			props = e.fc.clauseProps(cl)
		} else if len(cl.Props) > 0 {
			props = cl.Props
		}
		e.addObl("inv", label, text, props, st, g, pos)
	}
}

// atSite: "assert at <source text>" clauses fire at the first statement-level instruction
// (branch, store, call, return) whose source line contains the text.
func (e *Exec) atSite(ins ssa.Instruction, st *State) {
	if e.parent != nil || e.fc == nil || e.specMode {
		return
	}
	has := false
	for _, sa := range e.fc.Asserts {
		if sa.When == "at" {
			has = true
		}
	}
	if !has {
		return
	}
	switch ins.(type) {
	case *ssa.If, *ssa.Store, *ssa.Call, *ssa.Return:
	default:
		return
	}
	pos := ins.Pos()
	if iff, ok := ins.(*ssa.If); ok {
		pos = iff.Cond.Pos()
		if !pos.IsValid() {
			// the condition may be a phi/const: use the closest positioned instruction before it
			b := ins.Block()
			for i := len(b.Instrs) - 2; i >= 0 && !pos.IsValid(); i-- {
				pos = b.Instrs[i].Pos()
			}
		}
	}
	txt, _ := e.srcLine(pos)
	if txt == "" {
		return
	}
	for ai, sa := range e.fc.Asserts {
		if sa.When != "at" || !strings.Contains(txt, sa.Pattern) {
			continue
		}
		key := fmt.Sprintf("atdone:%d:%s", ai, txt)
		if e.counts[key] > 0 {
			continue
		}
		e.counts[key]++
		e.siteAsserts(ins, txt, nil, st, "at", nil)
	}
}

// onlyReturns: the block consists of phis, debug references and a return.
func onlyReturns(b *ssa.BasicBlock) bool {
	for _, ins := range b.Instrs {
		switch ins.(type) {
		case *ssa.Phi, *ssa.DebugRef, *ssa.Return:
		default:
			return false
		}
	}
	return true
}

// planSplits picks join blocks from which every path runs to a return without loops and
// without other entries. The blocks of such a region are executed merged as usual (safety
// and call obligations are generated once), but what must hold at its returns is checked
// path by path: each path is re-executed on its own from the join's incoming edges, which
// keeps every postcondition query to one path's terms.
func (e *Exec) planSplits() {
	e.splitJoin = map[*ssa.BasicBlock]bool{}
	e.inRegion = map[*ssa.BasicBlock]bool{}
	e.splitIn = map[*ssa.BasicBlock]*splitEdges{}
	if e.parent != nil || e.fc == nil || e.specMode {
		return
	}
	inLoop := map[*ssa.BasicBlock]bool{}
	for _, li := range e.headers {
		for b := range li.blocks {
			inLoop[b] = true
		}
	}
	inRPO := map[*ssa.BasicBlock]bool{}
	for _, b := range e.rpo {
		inRPO[b] = true
	}
	npreds := func(b *ssa.BasicBlock) int {
		np := 0
		for _, p := range b.Preds {
			if inRPO[p] {
				for _, s := range p.Succs {
					if s == b {
						np++
					}
				}
			}
		}
		return np
	}
	for _, b := range e.rpo {
		if e.inRegion[b] || inLoop[b] || onlyReturns(b) {
			continue
		}
		// region reachable from b; blocks that only return are its exits, not members
		region := map[*ssa.BasicBlock]bool{}
		var order []*ssa.BasicBlock
		ok, hasRet, joins := true, false, 0
		var walk func(x *ssa.BasicBlock)
		walk = func(x *ssa.BasicBlock) {
			if region[x] {
				return
			}
			if x != b && onlyReturns(x) {
				hasRet = true
				if npreds(x) > 1 {
					joins++
				}
				return
			}
			region[x] = true
			order = append(order, x)
			if inLoop[x] || e.inRegion[x] {
				ok = false
			}
			for _, s := range x.Succs {
				walk(s)
			}
		}
		walk(b)
		for _, x := range order {
			if x != b {
				if npreds(x) > 1 {
					joins++
				}
				for _, p := range x.Preds {
					if inRPO[p] && !region[p] {
						ok = false
					}
				}
			}
			if len(x.Instrs) > 0 {
				if _, isRet := x.Instrs[len(x.Instrs)-1].(*ssa.Return); isRet {
					hasRet = true
				}
			}
		}
		if !ok || !hasRet || joins == 0 {
			continue
		}
		memo := map[*ssa.BasicBlock]int{}
		var paths func(x *ssa.BasicBlock) int
		paths = func(x *ssa.BasicBlock) int {
			if n, done := memo[x]; done {
				return n
			}
			n := 0
			if len(x.Succs) == 0 {
				n = 1
			}
			for _, s := range x.Succs {
				n += paths(s)
				if n > 1000 {
					n = 1000
				}
			}
			memo[x] = n
			return n
		}
		np := npreds(b)
		if np < 1 {
			np = 1
		}
		if paths(b)*np > 64 {
			continue
		}
		e.splitJoin[b] = true
		for x := range region {
			e.inRegion[x] = true
		}
	}
}

// replaySplits re-executes every split region once per path (see planSplits). Only the
// obligations of the returns are emitted; labels get the suffix .p<path number>.
func (e *Exec) replaySplits() {
	if len(e.splitIn) == 0 {
		return
	}
	root := e.root()
	saveCounts := map[string]int{}
	for k, v := range root.counts {
		saveCounts[k] = v
	}
	saveOrd := map[string]int{}
	for k, v := range root.callOrd {
		saveOrd[k] = v
	}
	e.quiet, e.retMode = true, 2
	for _, b := range e.rpo {
		se := e.splitIn[b]
		if se == nil {
			continue
		}
		for k := range se.edges {
			if se.edges[k].pc.IsFalse() {
				continue
			}
			saveDef := e.defSeen
			e.defSeen = map[ssa.Value]bool{}
			e.replaySE, e.replayH0, e.replayQ0 = se, len(e.ctx.hyps), len(e.ctx.qhyps)
			// layout facts of array fields first met after the split point are stated again on
			// this path (the ones stated during the merged run are not among its hypotheses)
			saveArr := e.arrBases
			e.arrBases = e.arrBases[:se.narr:se.narr]
			e.replayPath(b, se.edges[k].clone(), se.preds[k])
			// the path's own assumptions are visible to its obligations only
			e.ctx.hyps = e.ctx.hyps[:e.replayH0]
			e.ctx.qhyps = e.ctx.qhyps[:e.replayQ0]
			e.replaySE = nil
			e.arrBases = saveArr
			e.defSeen = saveDef
		}
	}
	e.quiet, e.retMode = false, 0
	root.counts = saveCounts
	root.callOrd = saveOrd
}

func (e *Exec) replayPath(b *ssa.BasicBlock, st *State, pred *ssa.BasicBlock) {
	for _, ins := range b.Instrs {
		phi, ok := ins.(*ssa.Phi)
		if !ok || pred == nil {
			break
		}
		e.vals[phi] = e.phiValue(phi, b, []*State{st}, []*ssa.BasicBlock{pred})
	}
	e.execBlock(b, st)
	outs := e.outEdges[b]
	delete(e.outEdges, b)
	for si, s := range b.Succs {
		if si >= len(outs) || outs[si] == nil || outs[si].pc.IsFalse() {
			continue
		}
		e.replayPath(s, outs[si], b)
	}
}
