package main

// Contract files: comment-only Go files (build tag verif) with //@ blocks.

import (
	"bufio"
	"fmt"
	"os"
	"path/filepath"
	"regexp"
	"sort"
	"strconv"
	"strings"
)

type Clause struct {
	Expr  *SExpr
	Text  string
	Props []string
	Label string
	File  string
	Line  int
}

type LoopSpec struct {
	Invariants []*Clause
	Decreases  *Clause
	// Starts hold on entry only; Steps hold at every back edge, where a name denotes the value
	// carried into the next iteration and x$head the value the iteration started with. Together
	// with the exit condition they say which iterations happen (e.g. i == 0, i == i$head + 1:
	// every index below the bound is visited, in order).
	Starts []*Clause
	Steps  []*Clause
}

// SiteAssert with LetName != "" binds a contract-level name to the clause's value at that point
// (e.g. to remember the result of a call for a later assertion).
type SiteAssert struct {
	LetName string
	When    string // "before" | "after"
	Pattern string // substring of the callee name as printed by SSA
	Ordinal int    // 0 = every matching call
	Clause  *Clause
	Assume  bool
	// Optional: the clause constrains every matching call but need not match one ("assert any
	// call p: e"): used to say that a kind of call, if the code ever makes it, happens only
	// under e
	Optional bool
	IntVal   bool // remember: the value is an integer (default: boolean)
}

type LetDef struct {
	Name string
	Expr *SExpr
}

type FuncContract struct {
	Key           string // full function key
	Short         string
	Pkg           string
	Props         []string
	Requires      []*Clause
	Ensures       []*Clause
	Modifies      []*SExpr
	HasModifies   bool
	Loops         map[int]*LoopSpec
	InlineLoops   map[string]*LoopSpec // loops of callees executed in place: "<callee pattern>#<ordinal>"
	Pure          bool
	Inline        bool
	Trusted       bool // contract is assumed, body not verified (external functions)
	NoBody        bool
	Asserts       []*SiteAssert
	Lets          []LetDef
	Relies        []*Clause
	Ghosts        []GhostUpdate
	ParamNames    []string      // interface contracts: parameter names of the method
	AssumeAsserts []string      // type assertions to these types are assumed to succeed (listed)
	BV            bool          // verify in bit-vector mode
	Consumes      []ConsumeSpec // function-typed parameters / expressions completed exactly once
	Implements    []string      // interface contracts (keys) this function must refine
	InlineCalls   []string      // callees (by name pattern) whose body is executed in place in this function
	File          string
	Line          int
	Used          bool
}

// ConsumeSpec: "consumes cb [unless E]" - every return satisfies invoked(cb) + (E ? 1 : 0) == 1,
// and passing a function value for this parameter hands it on (counts as one invocation for
// the caller).
type ConsumeSpec struct {
	Name   string // parameter (or free variable) name, or an expression such as r.cb
	Expr   *SExpr
	Unless *SExpr
	Text   string
	Props  []string
}

type GhostUpdate struct {
	Map  string
	Var  string
	Expr *SExpr
	Text string
}

// GlobalInv: a fact about a package-level variable that only init() writes; assumed at the entry
// of every function of the package (and after call-outs it is re-assumed on use).
type GlobalInv struct {
	Pkg    string
	Global string
	Clause *Clause
}

// ImmutableSpec: a field written only by the listed constructors; its value survives call-outs.
type ImmutableSpec struct {
	Field        string // <pkg-relative type>.<field>
	Constructors []string
	Props        []string
	File         string
	Line         int
}

// GuardedSpec: a field that may only be accessed with the lock field of the same object held
// (or through sync/atomic), except inside the listed constructors.
type GuardedSpec struct {
	Pkg          string
	Field        string
	Lock         string
	Constructors []string
	Props        []string
}

type PredDef struct {
	Name      string
	Params    []string
	ParamText string
	Body      *SExpr
	Pkg       string
}

type Contracts struct {
	Funcs      map[string]*FuncContract // by full key
	Preds      map[string]*PredDef      // by pkgpath + "." + name, and by bare name
	Expect     map[string]int           // property -> minimum obligations
	GhostMaps  map[string]bool
	GlobalInvs []*GlobalInv
	Devirt     map[string]string         // interface type (pkgpath.Name) -> concrete struct type (pkgpath.Name); pointer receiver
	Immutable  map[string]*ImmutableSpec // field family prefix (T.f) -> spec
	Guarded    map[string]*GuardedSpec   // field family prefix (T.f) -> spec
	Files      []string
	Sources    map[string]string // file -> which source (repo|mirror)
}

var clauseKeywords = map[string]bool{
	"pred": true, "func": true, "prop": true, "requires": true, "ensures": true, "modifies": true,
	"loop": true, "pure": true, "inline": true, "trusted": true, "assert": true, "assume": true, "after": true,
	"assume-typeassert": true, "globalinv": true, "remember": true, "devirtualize": true, "immutable": true, "guarded": true, "arith": true, "consumes": true, "implements": true, "let": true, "rely": true, "expect-obligations": true, "iface": true, "nobody": true, "ghostmap": true, "ghost": true,
}

var tagRe = regexp.MustCompile(`^\[([^\]]*)\]\s*`)

func splitTags(s string) (props []string, label string, rest string) {
	m := tagRe.FindStringSubmatch(s)
	if m == nil {
		return nil, "", s
	}
	for _, w := range strings.FieldsFunc(m[1], func(r rune) bool { return r == ',' || r == ' ' }) {
		if regexp.MustCompile(`^C[0-9]{2,3}$`).MatchString(w) {
			props = append(props, w)
		} else {
			label = w
		}
	}
	return props, label, s[len(m[0]):]
}

// pkgDirs maps package import path suffix to directory relative to the repo root.
var contractPkgs = map[string]string{
	"":                ".",
	"internal":        "internal",
	"bytes":           "bytes",
	"util":            "util",
	"codec/frame":     "codec/frame",
	"codec/websocket": "codec/websocket",
	"multicast":       "multicast",
	"net/ipv4":        "net/ipv4",
}

func LoadContracts(repo, mirror string) (*Contracts, error) {
	c := &Contracts{Funcs: map[string]*FuncContract{}, Preds: map[string]*PredDef{}, Expect: map[string]int{}, Sources: map[string]string{}, GhostMaps: map[string]bool{}, Devirt: map[string]string{}, Immutable: map[string]*ImmutableSpec{}, Guarded: map[string]*GuardedSpec{}}
	var suffixes []string
	for s := range contractPkgs {
		suffixes = append(suffixes, s)
	}
	sort.Strings(suffixes)
	for _, suf := range suffixes {
		dir := contractPkgs[suf]
		pkgPath := modPath
		if suf != "" {
			pkgPath += "/" + suf
		}
		var files []string
		byBase := map[string]string{}
		srcOf := map[string]string{}
		if mirror != "" {
			ms, _ := filepath.Glob(filepath.Join(mirror, dir, "contracts*_verif.go"))
			for _, f := range ms {
				byBase[filepath.Base(f)] = f
				srcOf[f] = "mirror"
			}
		}
		if repo != "" {
			rs, _ := filepath.Glob(filepath.Join(repo, dir, "contracts*_verif.go"))
			for _, f := range rs {
				byBase[filepath.Base(f)] = f // the repository's copy wins
				srcOf[f] = "repo"
			}
		}
		for _, f := range byBase {
			files = append(files, f)
		}
		sort.Strings(files)
		for _, f := range files {
			c.Sources[f] = srcOf[f]
			if err := c.parseFile(f, pkgPath); err != nil {
				return nil, err
			}
			c.Files = append(c.Files, f)
		}
	}
	return c, nil
}

func (c *Contracts) parseFile(path, pkgPath string) error {
	fh, err := os.Open(path)
	if err != nil {
		return err
	}
	defer fh.Close()
	type rawClause struct {
		kw   string
		text string
		line int
	}
	var raws []rawClause
	sc := bufio.NewScanner(fh)
	sc.Buffer(make([]byte, 1<<20), 1<<20)
	ln := 0
	for sc.Scan() {
		ln++
		line := strings.TrimSpace(sc.Text())
		if !strings.HasPrefix(line, "//@") {
			continue
		}
		body := strings.TrimSpace(strings.TrimPrefix(line, "//@"))
		if body == "" {
			continue
		}
		if i := strings.Index(body, " //"); i >= 0 { // trailing comment
			body = strings.TrimSpace(body[:i])
		}
		if strings.HasPrefix(body, "//") {
			continue
		}
		first := body
		if i := strings.IndexAny(body, " \t["); i >= 0 {
			first = body[:i]
		}
		if clauseKeywords[first] {
			raws = append(raws, rawClause{first, strings.TrimSpace(body[len(first):]), ln})
		} else {
			if len(raws) == 0 {
				return fmt.Errorf("%s:%d: continuation without a clause", path, ln)
			}
			raws[len(raws)-1].text += " " + body
		}
	}
	var cur *FuncContract
	mk := func(text string, line int) (*Clause, error) {
		props, label, rest := splitTags(text)
		e, err := ParseSpec(rest)
		if err != nil {
			return nil, fmt.Errorf("%s:%d: %v", path, line, err)
		}
		return &Clause{Expr: e, Text: rest, Props: props, Label: label, File: path, Line: line}, nil
	}
	for _, r := range raws {
		switch r.kw {
		case "expect-obligations":
			// expect-obligations C10 >= 38
			f := strings.Fields(r.text)
			if len(f) == 3 {
				n, _ := strconv.Atoi(f[2])
				c.Expect[f[0]] = n
			}
			continue
		case "globalinv":
			// globalinv <global>: expr
			colon := strings.Index(r.text, ": ")
			if colon < 0 {
				return fmt.Errorf("%s:%d: malformed globalinv (want: globalinv <name>: expr)", path, r.line)
			}
			cl, err := mk(strings.TrimSpace(r.text[colon+2:]), r.line)
			if err != nil {
				return err
			}
			c.GlobalInvs = append(c.GlobalInvs, &GlobalInv{Pkg: pkgPath, Global: strings.TrimSpace(r.text[:colon]), Clause: cl})
			cur = nil
			continue
		case "devirtualize":
			// devirtualize <Interface> <struct>: the interface has a single implementation, *struct
			f := strings.Fields(r.text)
			if len(f) != 2 {
				return fmt.Errorf("%s:%d: malformed devirtualize clause", path, r.line)
			}
			c.Devirt[pkgPath+"."+f[0]] = pkgPath + "." + f[1]
			cur = nil
			continue
		case "immutable":
			// immutable [Cxx] T.f T.g ... constructors NewX, NewY
			props, _, rest := splitTags(r.text)
			parts := strings.SplitN(rest, "constructors", 2)
			var ctors []string
			if len(parts) == 2 {
				for _, w := range strings.FieldsFunc(parts[1], func(r rune) bool { return r == ',' || r == ' ' }) {
					ctors = append(ctors, w)
				}
			}
			for _, w := range strings.Fields(parts[0]) {
				c.Immutable[pkgRel(pkgPath)+w] = &ImmutableSpec{Field: pkgRel(pkgPath) + w, Constructors: ctors, Props: props, File: path, Line: r.line}
			}
			cur = nil
			continue
		case "guarded":
			// guarded [Cxx] T.f by lck constructors NewX
			props, _, rest := splitTags(r.text)
			parts := strings.SplitN(rest, "constructors", 2)
			var ctors []string
			if len(parts) == 2 {
				for _, w := range strings.FieldsFunc(parts[1], func(r rune) bool { return r == ',' || r == ' ' }) {
					ctors = append(ctors, w)
				}
			}
			f := strings.Fields(parts[0])
			if len(f) != 3 || f[1] != "by" {
				return fmt.Errorf("%s:%d: malformed guarded clause (want: guarded T.f by lock [constructors ...])", path, r.line)
			}
			c.Guarded[pkgRel(pkgPath)+f[0]] = &GuardedSpec{Pkg: pkgPath, Field: pkgRel(pkgPath) + f[0], Lock: f[2], Constructors: ctors, Props: props}
			cur = nil
			continue
		case "ghostmap":
			for _, w := range strings.Fields(r.text) {
				c.GhostMaps[w] = true
			}
			cur = nil
			continue
		case "pred":
			// name(params) = body
			eq := strings.Index(r.text, "=")
			lp := strings.Index(r.text, "(")
			rp := strings.Index(r.text, ")")
			if eq < 0 || lp < 0 || rp < lp || rp > eq {
				return fmt.Errorf("%s:%d: malformed pred", path, r.line)
			}
			name := strings.TrimSpace(r.text[:lp])
			var params []string
			for _, p := range strings.Split(r.text[lp+1:rp], ",") {
				p = strings.TrimSpace(p)
				if p == "" {
					continue
				}
				params = append(params, strings.Fields(p)[0])
			}
			body, err := ParseSpec(r.text[eq+1:])
			if err != nil {
				return fmt.Errorf("%s:%d: %v", path, r.line, err)
			}
			pd := &PredDef{Name: name, Params: params, ParamText: strings.TrimSpace(r.text[lp+1 : rp]), Body: body, Pkg: pkgPath}
			c.Preds[pkgPath+"."+name] = pd
			if _, dup := c.Preds[name]; !dup {
				c.Preds[name] = pd
			}
			cur = nil
			continue
		case "func":
			short := strings.TrimSpace(r.text)
			key := short
			if !strings.Contains(short, "/") || strings.HasPrefix(short, "(") {
				key = pkgPath + "." + short
			}
			if strings.HasPrefix(short, "ext:") { // external function: full key given
				key = strings.TrimPrefix(short, "ext:")
			}
			if strings.HasPrefix(short, "iface:") { // interface method: iface:[<pkg>.]<Type>.<Method>
				key = short
				if strings.Count(short, ".") == 1 {
					key = "iface:" + pkgPath + "." + strings.TrimPrefix(short, "iface:")
				}
			}
			if strings.HasPrefix(short, "fnparam:") { // spec of a function-typed parameter: fnparam:<func>.<param>
				key = "fnparam:" + pkgPath + "." + strings.TrimPrefix(short, "fnparam:")
			}
			if _, dup := c.Funcs[key]; dup {
				return fmt.Errorf("%s:%d: duplicate contract for %s", path, r.line, key)
			}
			cur = &FuncContract{Key: key, Short: short, Pkg: pkgPath, Loops: map[int]*LoopSpec{}, File: path, Line: r.line}
			c.Funcs[key] = cur
			continue
		}
		if cur == nil {
			return fmt.Errorf("%s:%d: clause %q outside a func block", path, r.line, r.kw)
		}
		switch r.kw {
		case "prop":
			for _, w := range strings.FieldsFunc(r.text, func(r rune) bool { return r == ',' || r == ' ' }) {
				cur.Props = append(cur.Props, w)
			}
		case "assume-typeassert":
			cur.AssumeAsserts = append(cur.AssumeAsserts, strings.TrimSpace(r.text))
		case "arith":
			cur.BV = strings.TrimSpace(r.text) == "bv"
		case "consumes":
			props, _, rest := splitTags(r.text)
			name := rest
			var unless *SExpr
			if i := strings.Index(rest, " unless "); i >= 0 {
				name = strings.TrimSpace(rest[:i])
				u, err := ParseSpec(rest[i+len(" unless "):])
				if err != nil {
					return fmt.Errorf("%s:%d: %v", path, r.line, err)
				}
				unless = u
			}
			name = strings.TrimSpace(name)
			ex, err := ParseSpec(name)
			if err != nil {
				return fmt.Errorf("%s:%d: %v", path, r.line, err)
			}
			cur.Consumes = append(cur.Consumes, ConsumeSpec{Name: name, Expr: ex, Unless: unless, Text: rest, Props: props})
		case "implements":
			k := strings.TrimSpace(r.text)
			if strings.HasPrefix(k, "iface:") && strings.Count(k, ".") == 1 {
				k = "iface:" + pkgPath + "." + strings.TrimPrefix(k, "iface:")
			}
			cur.Implements = append(cur.Implements, k)
		case "pure":
			cur.Pure = true
		case "inline":
			if strings.HasPrefix(strings.TrimSpace(r.text), "call ") {
				cur.InlineCalls = append(cur.InlineCalls, strings.TrimSpace(strings.TrimPrefix(strings.TrimSpace(r.text), "call ")))
			} else {
				cur.Inline = true
			}
		case "trusted":
			cur.Trusted = true
		case "nobody":
			cur.NoBody = true
		case "requires":
			cl, err := mk(r.text, r.line)
			if err != nil {
				return err
			}
			cur.Requires = append(cur.Requires, cl)
		case "ensures":
			cl, err := mk(r.text, r.line)
			if err != nil {
				return err
			}
			cur.Ensures = append(cur.Ensures, cl)
		case "rely":
			cl, err := mk(r.text, r.line)
			if err != nil {
				return err
			}
			cur.Relies = append(cur.Relies, cl)
		case "modifies":
			cur.HasModifies = true
			txt := strings.TrimSpace(r.text)
			if txt == "nothing" || txt == "" {
				continue
			}
			for _, part := range splitTop(txt, ',') {
				e, err := ParseSpec(part)
				if err != nil {
					return fmt.Errorf("%s:%d: %v", path, r.line, err)
				}
				cur.Modifies = append(cur.Modifies, e)
			}
		case "ghost":
			// ghost P[k] = expr
			m := regexp.MustCompile(`^(\w+)\[(\w+)\]\s*=\s*(.*)$`).FindStringSubmatch(r.text)
			if m == nil {
				return fmt.Errorf("%s:%d: malformed ghost update (want: ghost M[k] = expr)", path, r.line)
			}
			e, err := ParseSpec(m[3])
			if err != nil {
				return fmt.Errorf("%s:%d: %v", path, r.line, err)
			}
			cur.Ghosts = append(cur.Ghosts, GhostUpdate{Map: m[1], Var: m[2], Expr: e, Text: r.text})
		case "let":
			eq := strings.Index(r.text, "=")
			if eq < 0 {
				return fmt.Errorf("%s:%d: malformed let", path, r.line)
			}
			e, err := ParseSpec(r.text[eq+1:])
			if err != nil {
				return fmt.Errorf("%s:%d: %v", path, r.line, err)
			}
			cur.Lets = append(cur.Lets, LetDef{strings.TrimSpace(r.text[:eq]), e})
		case "loop":
			// loop <n> invariant <expr> | loop <n> decreases <expr>
			f := strings.Fields(r.text)
			if len(f) < 3 {
				return fmt.Errorf("%s:%d: malformed loop clause", path, r.line)
			}
			n, aerr := strconv.Atoi(f[0])
			rest := strings.TrimSpace(strings.TrimPrefix(strings.TrimSpace(strings.TrimPrefix(r.text, f[0])), f[1]))
			cl, err := mk(rest, r.line)
			if err != nil {
				return err
			}
			var ls *LoopSpec
			if aerr != nil {
				// a loop of a callee that is executed in place: <callee pattern>#<ordinal>
				if !strings.Contains(f[0], "#") {
					return fmt.Errorf("%s:%d: loop ordinal: %v", path, r.line, aerr)
				}
				if cur.InlineLoops == nil {
					cur.InlineLoops = map[string]*LoopSpec{}
				}
				ls = cur.InlineLoops[f[0]]
				if ls == nil {
					ls = &LoopSpec{}
					cur.InlineLoops[f[0]] = ls
				}
			} else {
				ls = cur.Loops[n]
				if ls == nil {
					ls = &LoopSpec{}
					cur.Loops[n] = ls
				}
			}
			switch f[1] {
			case "invariant":
				ls.Invariants = append(ls.Invariants, cl)
			case "decreases":
				ls.Decreases = cl
			case "starts":
				ls.Starts = append(ls.Starts, cl)
			case "step":
				ls.Steps = append(ls.Steps, cl)
			default:
				return fmt.Errorf("%s:%d: loop clause %q", path, r.line, f[1])
			}
		case "remember":
			// remember after call <pattern>[#k]: name = expr
			txt := strings.TrimSpace(r.text)
			when := "before"
			if strings.HasPrefix(txt, "after ") {
				when = "after"
				txt = strings.TrimSpace(strings.TrimPrefix(txt, "after"))
			}
			if !strings.HasPrefix(txt, "call ") {
				return fmt.Errorf("%s:%d: malformed remember clause", path, r.line)
			}
			txt = strings.TrimSpace(strings.TrimPrefix(txt, "call"))
			colon := strings.Index(txt, ": ")
			eq := strings.Index(txt, "=")
			if colon < 0 || eq < colon {
				return fmt.Errorf("%s:%d: malformed remember clause (need 'call <pattern>: name = expr')", path, r.line)
			}
			pat := strings.TrimSpace(txt[:colon])
			ord := 0
			if h := strings.LastIndex(pat, "#"); h >= 0 {
				ord, _ = strconv.Atoi(pat[h+1:])
				pat = pat[:h]
			}
			name := strings.TrimSpace(txt[colon+2 : eq])
			// "name := expr" remembers an integer value, "name = expr" a boolean
			intVal := false
			if strings.HasSuffix(name, ":") {
				intVal = true
				name = strings.TrimSpace(strings.TrimSuffix(name, ":"))
			}
			cl, err := mk(strings.TrimSpace(txt[eq+1:]), r.line)
			if err != nil {
				return err
			}
			cur.Asserts = append(cur.Asserts, &SiteAssert{When: when, Pattern: pat, Ordinal: ord, Clause: cl, LetName: name, IntVal: intVal})
		case "assert", "assume", "after":
			// assert call <pattern>[#k]: expr     after call <pattern>[#k]: expr
			txt := r.text
			when := "before"
			if r.kw == "after" {
				when = "after"
			}
			txt = strings.TrimSpace(txt)
			if strings.HasPrefix(txt, "after ") {
				when = "after"
				txt = strings.TrimSpace(strings.TrimPrefix(txt, "after"))
			} else if strings.HasPrefix(txt, "before ") {
				txt = strings.TrimSpace(strings.TrimPrefix(txt, "before"))
			}
			isDef := false
			if strings.HasPrefix(txt, "at \"") {
				// assert at "<source text>": expr
				rest := txt[len("at \""):]
				q := strings.Index(rest, "\":")
				if q < 0 {
					return fmt.Errorf("%s:%d: malformed 'at' clause", path, r.line)
				}
				cl, err := mk(strings.TrimSpace(rest[q+2:]), r.line)
				if err != nil {
					return err
				}
				cur.Asserts = append(cur.Asserts, &SiteAssert{When: "at", Pattern: rest[:q], Clause: cl, Assume: r.kw == "assume"})
				continue
			}
			if strings.HasPrefix(txt, "def ") {
				isDef = true
				when = "def"
				txt = strings.TrimSpace(strings.TrimPrefix(txt, "def"))
			} else if !strings.HasPrefix(txt, "call ") && !strings.HasPrefix(txt, "any call ") {
				return fmt.Errorf("%s:%d: malformed site clause (need '[after] call <pattern>: expr' or 'def <var>: expr')", path, r.line)
			}
			optional := false
			if strings.HasPrefix(txt, "any call ") {
				optional = true
				txt = strings.TrimSpace(strings.TrimPrefix(txt, "any"))
			}
			if !isDef {
				txt = strings.TrimSpace(strings.TrimPrefix(txt, "call"))
			}
			colon := strings.Index(txt, ": ")
			if colon < 0 {
				return fmt.Errorf("%s:%d: malformed site clause (need 'call <pattern>: expr')", path, r.line)
			}
			pat := strings.TrimSpace(txt[:colon])
			ord := 0
			if h := strings.LastIndex(pat, "#"); h >= 0 {
				ord, _ = strconv.Atoi(pat[h+1:])
				pat = pat[:h]
			}
			cl, err := mk(txt[colon+2:], r.line)
			if err != nil {
				return err
			}
			cur.Asserts = append(cur.Asserts, &SiteAssert{When: when, Pattern: pat, Ordinal: ord, Clause: cl, Assume: r.kw == "assume", Optional: optional})
		}
	}
	return nil
}

// splitTop splits on sep at bracket depth 0.
func splitTop(s string, sep rune) []string {
	var out []string
	depth := 0
	start := 0
	for i, r := range s {
		switch r {
		case '(', '[':
			depth++
		case ')', ']':
			depth--
		default:
			if r == sep && depth == 0 {
				out = append(out, strings.TrimSpace(s[start:i]))
				start = i + 1
			}
		}
	}
	out = append(out, strings.TrimSpace(s[start:]))
	return out
}

func (fc *FuncContract) clauseProps(cl *Clause) []string {
	if len(cl.Props) > 0 {
		return cl.Props
	}
	return fc.Props
}

// lookup finds the contract of a function key, falling back to the generic (uninstantiated) key.
func (c *Contracts) lookup(key string) *FuncContract {
	if fc := c.Funcs[key]; fc != nil {
		return fc
	}
	if strings.HasPrefix(key, "fnparam:") {
		// wildcard specs: fnparam:(*file).*.cb
		for k, fc := range c.Funcs {
			if strings.HasPrefix(k, "fnparam:") && strings.Contains(k, "*.") && wildMatch(k, key) {
				return fc
			}
		}
	}
	if g := stripTypeArgs(key); g != key {
		return c.Funcs[g]
	}
	return nil
}

// pkgRel: prefix that typeName() gives to types of the package (path relative to the module).
func pkgRel(pkgPath string) string {
	r := strings.TrimPrefix(strings.TrimPrefix(pkgPath, modPath), "/")
	if r == "" {
		return ""
	}
	return r + "."
}

// immutableKey reports whether a Mem family belongs to a field declared immutable.
func (c *Contracts) immutableKey(k string) bool {
	base := k
	if i := strings.Index(base, "#"); i >= 0 {
		base = base[:i]
	}
	_, ok := c.Immutable[base]
	return ok
}

// wildMatch: pattern with ".*." segments standing for any function name (incl. closures).
func wildMatch(pat, key string) bool {
	parts := strings.Split(pat, ".*.")
	if len(parts) != 2 {
		return false
	}
	return strings.HasPrefix(key, parts[0]+".") && strings.HasSuffix(key, "."+parts[1]) && len(key) > len(parts[0])+len(parts[1])+1
}
