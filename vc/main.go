package main

import (
	"fmt"
	"os"
	"runtime/pprof"
	"sort"
	"strings"

	"golang.org/x/tools/go/ssa"
)

func main() {
	if len(os.Args) < 2 {
		fmt.Fprintln(os.Stderr, "usage: sonicvc <census|dump|check> ...")
		os.Exit(2)
	}
	if pf := os.Getenv("SONICVC_PROF"); pf != "" {
		f, _ := os.Create(pf)
		pprof.StartCPUProfile(f)
	}
	switch os.Args[1] {
	case "check":
		rc := cmdCheck(os.Args[2:])
		pprof.StopCPUProfile()
		os.Exit(rc)
	case "verify":
		rc := cmdVerify(os.Args[2:])
		pprof.StopCPUProfile()
		os.Exit(rc)
	case "mutants":
		os.Exit(cmdMutants(os.Args[2:]))
	case "census":
		p, err := LoadProgram("/repo")
		if err != nil {
			fmt.Fprintln(os.Stderr, err)
			os.Exit(2)
		}
		cnt := map[string]int{}
		n := 0
		for _, k := range p.sortedFuncKeys() {
			fn := p.Funcs[k]
			if !isRepoFunc(fn) || fn.Blocks == nil {
				continue
			}
			n++
			for _, b := range fn.Blocks {
				for _, in := range b.Instrs {
					cnt[fmt.Sprintf("%T", in)]++
				}
			}
		}
		var ks []string
		for k := range cnt {
			ks = append(ks, k)
		}
		sort.Strings(ks)
		for _, k := range ks {
			fmt.Println(k, cnt[k])
		}
		fmt.Println("functions", n)
	case "dump":
		p, err := LoadProgram("/repo")
		if err != nil {
			fmt.Fprintln(os.Stderr, err)
			os.Exit(2)
		}
		for _, k := range p.sortedFuncKeys() {
			if len(os.Args) > 2 && strings.Contains(k, os.Args[2]) {
				fmt.Println("KEY", k)
				p.Funcs[k].WriteTo(os.Stdout)
			}
		}
	case "keys":
		p, err := LoadProgram("/repo")
		if err != nil {
			fmt.Fprintln(os.Stderr, err)
			os.Exit(2)
		}
		for _, k := range p.sortedFuncKeys() {
			if isRepoFunc(p.Funcs[k]) {
				fmt.Println(shortKey(k))
			}
		}
	}
	_ = ssa.NaiveForm
}
