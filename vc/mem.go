package main

// Update trees for heaps (object field maps: ref -> value) and element memories
// (address -> element). Nothing but the base symbol ever reaches the solver: reads are
// pushed through the tree and become ite-terms over applications of uninterpreted
// functions, so every query stays quantifier-free.

import "fmt"

type memKind int

const (
	mBase memKind = iota
	mStore
	mCopy
	mIte
	mHavoc
	mFill
	mLambda
)

type Mem struct {
	kind memKind
	sort *Sort  // element sort
	name string // mBase / mHavoc: function symbol
	prev *Mem
	// mStore
	addr, val *Term
	// mCopy: [dst, dst+n) := src memory (snapshot) [src, src+n)
	dst, src, n *Term
	srcMem      *Mem
	// mIte
	cond *Term
	a, b *Mem
	// mHavoc: addresses in [lo, hi) (nil bound = unbounded) get unconstrained values
	lo, hi *Term
	depth  int
	id     int
	fam    string                 // family key (for the read log)
	fn     func(addr *Term) *Term // mLambda: pointwise definition
}

var memCounter int

func newMem(m *Mem) *Mem {
	memCounter++
	m.id = memCounter
	if m.prev != nil {
		m.depth = m.prev.depth + 1
		m.fam = m.prev.fam
	}
	if m.kind == mIte {
		m.depth = max(m.a.depth, m.b.depth) + 1
		m.fam = m.a.fam
	}
	return m
}

func MemBase(name string, sort *Sort) *Mem {
	return newMem(&Mem{kind: mBase, sort: sort, name: sanitize(name)})
}

func (m *Mem) Store(addr, val *Term) *Mem {
	if val.Sort != m.sort {
		panic(fmt.Sprintf("mem store sort mismatch: mem %s val %s", m.sort, val.Sort))
	}
	return newMem(&Mem{kind: mStore, sort: m.sort, prev: m, addr: addr, val: val})
}

func (m *Mem) Copy(dst *Term, srcMem *Mem, src, n *Term) *Mem {
	return newMem(&Mem{kind: mCopy, sort: m.sort, prev: m, dst: dst, srcMem: srcMem, src: src, n: n})
}

func MemIte(c *Term, a, b *Mem) *Mem {
	if a == b || c.IsTrue() {
		return a
	}
	if c.IsFalse() {
		return b
	}
	return newMem(&Mem{kind: mIte, sort: a.sort, cond: c, a: a, b: b})
}

// Lambda defines every address pointwise (ghost updates).
func (m *Mem) Lambda(fn func(addr *Term) *Term) *Mem {
	return newMem(&Mem{kind: mLambda, sort: m.sort, prev: m, fn: fn})
}

// Fill sets every address in [lo,hi) to val.
func (m *Mem) Fill(lo, hi, val *Term) *Mem {
	return newMem(&Mem{kind: mFill, sort: m.sort, prev: m, lo: lo, hi: hi, val: val})
}

// Havoc the addresses in [lo,hi); nil means unbounded on that side.
func (m *Mem) Havoc(tag string, lo, hi *Term) *Mem {
	memCounter++
	return newMem(&Mem{kind: mHavoc, sort: m.sort, prev: m, lo: lo, hi: hi, name: sanitize(fmt.Sprintf("hv_%s!%d", tag, memCounter))})
}

type readKey struct {
	mem  int
	addr int
}

type MemCtx struct {
	cache map[readKey]*Term
	// every (memory family, address) read, for quantifier instantiation
	onRead func(fam string, addr *Term)
	symFam map[string]string // memory function symbol -> family
}

func (c *MemCtx) Read(m *Mem, addr *Term) *Term {
	return c.read(m, addr)
}

func (c *MemCtx) read(m *Mem, addr *Term) *Term {
	k := readKey{m.id, addr.id}
	if t, ok := c.cache[k]; ok {
		return t
	}
	var out *Term
	switch m.kind {
	case mBase:
		if c.onRead != nil {
			c.onRead(m.fam, addr)
		}
		c.symFam[m.name] = m.fam
		out = App(m.name, m.sort, addr)
	case mStore:
		eq := Eq(addr, m.addr)
		if eq.IsTrue() {
			out = m.val
		} else {
			out = Ite(eq, m.val, c.read(m.prev, addr))
		}
	case mCopy:
		in := And(Le(m.dst, addr), Lt(addr, AddNW(m.dst, m.n)))
		if in.IsFalse() {
			out = c.read(m.prev, addr)
		} else {
			sa := AddNW(m.src, SubNW(addr, m.dst))
			out = Ite(in, c.read(m.srcMem, sa), c.read(m.prev, addr))
		}
	case mIte:
		out = Ite(m.cond, c.read(m.a, addr), c.read(m.b, addr))
	case mLambda:
		out = m.fn(addr)
	case mFill:
		in := And(Le(m.lo, addr), Lt(addr, m.hi))
		out = Ite(in, m.val, c.read(m.prev, addr))
	case mHavoc:
		in := True
		if m.lo != nil {
			in = And(in, Le(m.lo, addr))
		}
		if m.hi != nil {
			in = And(in, Lt(addr, m.hi))
		}
		if c.onRead != nil {
			c.onRead(m.fam, addr)
		}
		c.symFam[m.name] = m.fam
		out = Ite(in, App(m.name, m.sort, addr), c.read(m.prev, addr))
	}
	c.cache[k] = out
	return out
}
