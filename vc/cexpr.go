package main

// Evaluation of contract expressions to symbolic values.

import (
	"fmt"
	"go/constant"
	"go/token"
	"go/types"
	"math/big"
	"strings"

	"golang.org/x/tools/go/ssa"
)

const (
	polAssume = iota
	polProve
)

type UntypedInt struct{ V *big.Int }

// UntypedIte: a conditional between untyped constants; takes the type of the other operand.
type UntypedIte struct {
	C    *Term
	A, B Value // UntypedInt or UntypedIte
}

func (e *Exec) typedUntyped(v Value, s *Sort) *Term {
	switch x := v.(type) {
	case UntypedInt:
		return Const(x.V, s)
	case UntypedIte:
		return Ite(x.C, e.typedUntyped(x.A, s), e.typedUntyped(x.B, s))
	}
	return nil
}

func isUntyped(v Value) bool {
	switch v.(type) {
	case UntypedInt, UntypedIte:
		return true
	}
	return false
}

type Env struct {
	e           *Exec
	cur, old    *State
	vars        map[string]Value
	results     []Value
	resultNames []string
	polarity    int
	block       *ssa.BasicBlock
	pkg         *types.Package
	inOld       bool
	siteInvoked map[string]*Term // at a call site: invoked(p) for the callee's consumed parameters
	site        bool             // evaluating a callee contract at a call site: names resolve to vars only
	args        []Value
	neg         bool // inside a negation / antecedent: forall not allowed
}

func (e *Exec) newEnv(cur, old *State) *Env {
	return &Env{e: e, cur: cur, old: old, vars: map[string]Value{}, pkg: pkgOf(e.fn)}
}

func (v *Env) fail(f string, a ...interface{}) { panic(specErr(fmt.Sprintf(f, a...))) }

func (v *Env) state() *State {
	if v.inOld {
		return v.old
	}
	return v.cur
}

func (v *Env) evalBool(x *SExpr) *Term {
	switch x.Kind {
	case SImp:
		a := v.withNeg(func() *Term { return v.evalBool(x.Args[0]) })
		if x.Args[1].Kind == SForall || containsForall(x.Args[1]) {
			return v.evalGuarded(a, x.Args[1])
		}
		return Imp(a, v.evalBool(x.Args[1]))
	case SForall:
		return v.evalGuarded(True, x)
	case SBinary:
		if x.Op == "&&" {
			return And(v.evalBool(x.Args[0]), v.evalBool(x.Args[1]))
		}
		if x.Op == "||" && !containsForall(x) {
			return Or(v.evalBool(x.Args[0]), v.evalBool(x.Args[1]))
		}
	case SUnary:
		if x.Op == "!" {
			return Not(v.withNeg(func() *Term { return v.evalBool(x.Args[0]) }))
		}
	}
	r := v.eval(x)
	s, ok := r.(Scalar)
	if !ok || s.T.Sort.Kind != SBool {
		v.fail("expression %s is not boolean", x)
	}
	return s.T
}

func (v *Env) withNeg(f func() *Term) *Term {
	old := v.neg
	v.neg = true
	defer func() { v.neg = old }()
	return f()
}

func containsForall(x *SExpr) bool {
	if x == nil {
		return false
	}
	if x.Kind == SForall {
		return true
	}
	for _, a := range x.Args {
		if containsForall(a) {
			return true
		}
	}
	return false
}

// evalGuarded handles  guard ==> (…forall…)  in positive position.
func (v *Env) evalGuarded(guard *Term, x *SExpr) *Term {
	if v.neg {
		v.fail("forall in negative position: %s", x)
	}
	switch x.Kind {
	case SForall:
		return v.evalForall(guard, x)
	case SImp:
		a := v.withNeg(func() *Term { return v.evalBool(x.Args[0]) })
		return v.evalGuarded(And(guard, a), x.Args[1])
	case SBinary:
		if x.Op == "&&" {
			return And(v.evalGuarded(guard, x.Args[0]), v.evalGuarded(guard, x.Args[1]))
		}
	}
	if containsForall(x) {
		v.fail("unsupported position of forall in %s", x)
	}
	return Imp(guard, v.evalBool(x))
}

type trigger struct {
	arr   *SExpr
	idx   *SExpr
	inOld bool
}

func (v *Env) evalForall(guard *Term, x *SExpr) *Term {
	if len(x.Vars) > 2 {
		v.fail("forall with more than two variables is not supported: %s", x)
	}
	names := x.Vars
	body := x.Args[0]
	if v.polarity == polProve {
		saved := map[string]Value{}
		for _, name := range names {
			if old, had := v.vars[name]; had {
				saved[name] = old
			}
			v.vars[name] = Scalar{Fresh("sk."+name, I64)}
		}
		r := v.evalGuardedBody(guard, body)
		for _, name := range names {
			if old, had := saved[name]; had {
				v.vars[name] = old
			} else {
				delete(v.vars, name)
			}
		}
		return r
	}
	// assume: register an instantiable hypothesis
	snap := *v
	snap.vars = map[string]Value{}
	for k, val := range v.vars {
		snap.vars[k] = val
	}
	// the hypothesis speaks about the state it was assumed in: instances are built lazily, so
	// freeze that state (the live one keeps changing as execution goes on)
	snap.cur = v.cur.clone()
	if v.old != nil {
		snap.old = v.old.clone()
	}
	pc := v.cur.pc
	q := &QHyp{at: len(v.e.ctx.hyps), idx: len(v.e.ctx.qhyps), nvars: len(names), cache: map[string]*Term{}, desc: x.String(), pc: pc}
	for _, name := range names {
		var trigs []trigger
		collectTriggers(body, name, v.inOld, &trigs)
		if len(trigs) == 0 {
			v.fail("forall %s has no index pattern x[%s+c] to instantiate on: %s", name, name, x)
		}
		// prefer patterns over the current state: a pattern under old(...) fires on every read
		// of the initial memory and is only used when nothing else is available
		hasCur := false
		for _, tg := range trigs {
			if !tg.inOld {
				hasCur = true
			}
		}
		var qts []qtrig
		for _, tg := range trigs {
			if hasCur && tg.inOld && !v.inOld {
				continue
			}
			// the array expression and the offset must not depend on the other bound variable
			dep := false
			for _, other := range names {
				if other != name && (mentions(tg.arr, other) || mentions(tg.idx, other)) {
					dep = true
				}
			}
			if dep {
				continue
			}
			sv := snap
			sv.inOld = tg.inOld
			sv.vars = map[string]Value{}
			for k, val := range snap.vars {
				sv.vars[k] = val
			}
			sv.vars[name] = Scalar{ConstI(0, I64)}
			arrV := sv.eval(tg.arr)
			var ptr *Term
			var elem types.Type
			ghostFam := ""
			switch a := arrV.(type) {
			case GhostMapV:
				ptr = ConstI(0, I64)
				ghostFam = "ghost:" + a.Name
			case SliceV:
				ptr, elem = a.Ptr, a.Elem
			case PtrV:
				if a.Kind == pArr {
					ptr = a.Addr
					elem = under(a.T).(*types.Array).Elem()
				}
			}
			if ptr == nil {
				v.fail("forall trigger %s is not a slice or array", tg.arr)
			}
			c := v.e.toI64(sv.eval(tg.idx)) // idx with name := 0
			fam := ghostFam
			if fam == "" {
				fam = "elem:" + typeName(elem)
			}
			p0, c0 := ptr, c
			qts = append(qts, qtrig{family: fam, base: p0, solve: func(addr *Term) *Term { return SubNW(SubNW(addr, p0), c0) }})
		}
		if len(qts) == 0 {
			v.fail("forall %s: no usable trigger for %s", x, name)
		}
		q.trigs = append(q.trigs, qts)
	}
	q.body = func(js []*Term) *Term {
		ev := snap
		ev.vars = map[string]Value{}
		for k, val := range snap.vars {
			ev.vars[k] = val
		}
		for i, name := range names {
			ev.vars[name] = Scalar{js[i]}
		}
		ev.polarity = polAssume
		return Imp(pc, ev.evalGuardedBody(guard, body))
	}
	v.e.ctx.qhyps = append(v.e.ctx.qhyps, q)
	return True
}

func (v *Env) evalGuardedBody(guard *Term, body *SExpr) *Term {
	if containsForall(body) {
		return v.evalGuarded(guard, body)
	}
	return Imp(guard, v.evalBool(body))
}

func mentions(x *SExpr, name string) bool {
	if x == nil {
		return false
	}
	if x.Kind == SIdent && x.Name == name {
		return true
	}
	for _, a := range x.Args {
		if mentions(a, name) {
			return true
		}
	}
	return false
}

func collectTriggers(x *SExpr, name string, inOld bool, out *[]trigger) {
	if x == nil {
		return
	}
	if x.Kind == SCall && x.Args[0].Kind == SIdent && x.Args[0].Name == "old" {
		for _, a := range x.Args[1:] {
			collectTriggers(a, name, true, out)
		}
		return
	}
	if x.Kind == SIndex && mentions(x.Args[1], name) && !mentions(x.Args[0], name) {
		if linearIn(x.Args[1], name) {
			*out = append(*out, trigger{x.Args[0], x.Args[1], inOld})
		}
	}
	for _, a := range x.Args {
		collectTriggers(a, name, inOld, out)
	}
}

// linearIn: idx is name, name+e, e+name or name-e with e free of name.
func linearIn(idx *SExpr, name string) bool {
	if idx.Kind == SIdent && idx.Name == name {
		return true
	}
	if idx.Kind == SBinary && (idx.Op == "+" || idx.Op == "-") {
		l, r := idx.Args[0], idx.Args[1]
		if linearIn(l, name) && !mentions(r, name) {
			return true
		}
		if idx.Op == "+" && linearIn(r, name) && !mentions(l, name) {
			return true
		}
	}
	return false
}

func (e *Exec) toI64(v Value) *Term {
	switch x := v.(type) {
	case UntypedIte:
		return e.typedUntyped(x, I64)
	case UntypedInt:
		return Const(x.V, I64)
	case Scalar:
		return Conv(x.T, I64)
	}
	e.errorf("integer expected, got %T", v)
	return nil
}

// eval -----------------------------------------------------------------------------

func (v *Env) eval(x *SExpr) Value {
	switch x.Kind {
	case SNum:
		return UntypedInt{x.Num}
	case SStr:
		return StringV{ID: v.e.stringID(x.Name), Len: ConstI(int64(len(x.Name)), I64)}
	case SIdent:
		return v.ident(x.Name)
	case SUnary:
		return v.unary(x)
	case SBinary:
		return v.binary(x)
	case SImp, SForall:
		return Scalar{v.evalBool(x)}
	case SCond:
		c := v.withNeg(func() *Term { return v.evalBool(x.Args[0]) })
		a, b := v.eval(x.Args[1]), v.eval(x.Args[2])
		if isUntyped(a) && isUntyped(b) {
			return UntypedIte{C: c, A: a, B: b}
		}
		a, b = v.unify(a, b)
		return v.e.iteValue(c, a, b)
	case SSel:
		return v.selector(x)
	case SIndex:
		return v.index(x)
	case SSlice:
		return v.slice(x)
	case SCall:
		return v.call(x)
	}
	v.fail("cannot evaluate %s", x)
	return nil
}

func (v *Env) unify(a, b Value) (Value, Value) {
	if _, ok := a.(UntypedIte); ok {
		if sb, ok := b.(Scalar); ok {
			return Scalar{v.e.typedUntyped(a, sb.T.Sort)}, b
		}
		return Scalar{v.e.typedUntyped(a, I64)}, v.untypedTo(b, I64)
	}
	if _, ok := b.(UntypedIte); ok {
		if sa, ok := a.(Scalar); ok {
			return a, Scalar{v.e.typedUntyped(b, sa.T.Sort)}
		}
		return v.untypedTo(a, I64), Scalar{v.e.typedUntyped(b, I64)}
	}
	ua, aok := a.(UntypedInt)
	ub, bok := b.(UntypedInt)
	switch {
	case aok && bok:
		return Scalar{Const(ua.V, I64)}, Scalar{Const(ub.V, I64)}
	case aok:
		if s, ok := b.(Scalar); ok {
			return Scalar{Const(ua.V, s.T.Sort)}, b
		}
	case bok:
		if s, ok := a.(Scalar); ok {
			return a, Scalar{Const(ub.V, s.T.Sort)}
		}
	}
	return a, b
}

func (v *Env) ident(name string) Value {
	if val, ok := v.vars[name]; ok {
		return val
	}
	switch name {
	case "nil":
		return IfaceV{ID: ConstI(0, Ref)}
	case "true":
		return Scalar{True}
	case "false":
		return Scalar{False}
	case "result":
		if len(v.results) == 1 {
			return v.results[0]
		}
		if len(v.results) > 1 {
			return TupleV(v.results)
		}
		v.fail("result used outside a postcondition")
	}
	if strings.HasPrefix(name, "result") && len(name) == 7 && name[6] >= '0' && name[6] <= '9' {
		i := int(name[6] - '0')
		if i < len(v.results) {
			return v.results[i]
		}
		v.fail("%s: function has %d results", name, len(v.results))
	}
	if strings.HasPrefix(name, "arg") && len(name) == 4 && name[3] >= '0' && name[3] <= '9' {
		i := int(name[3] - '0')
		if i < len(v.args) {
			return v.args[i]
		}
		v.fail("%s: call has %d arguments", name, len(v.args))
	}
	for i, rn := range v.resultNames {
		if rn == name && rn != "" && i < len(v.results) {
			return v.results[i]
		}
	}
	if v.e.C.GhostMaps[name] {
		return GhostMapV{name}
	}
	if root := v.e.root(); root.remembered[name] {
		if root.rememberedInt[name] {
			return Scalar{v.e.ghostGet(v.state(), "let:"+name)}
		}
		return Scalar{Eq(v.e.ghostGet(v.state(), "let:"+name), ConstI(1, I64))}
	}
	if !v.site {
		if val, ok := v.e.lets[name]; ok {
			return val
		}
		// x$head: the value variable x had on entry to the current iteration of the enclosing
		// loop (its phi at the loop header)
		if strings.HasSuffix(name, "$head") && v.block != nil {
			base := strings.TrimSuffix(name, "$head")
			for blk := v.block; blk != nil; blk = blk.Idom() {
				if v.e.headers[blk] == nil {
					continue
				}
				for _, ins := range blk.Instrs {
					if phi, ok := ins.(*ssa.Phi); ok && phi.Comment == base {
						if hv, ok := v.e.headVals[phi]; ok {
							return hv
						}
						return v.e.val(phi)
					}
				}
			}
			v.fail("%s: no enclosing loop carries a variable %s", name, base)
		}
		// at a program point (loop header, call site) a name denotes the variable's current
		// value; inside old(...) a parameter name denotes its entry value
		if v.block != nil && !v.inOld {
			if val, ok := v.e.lookupLocal(name, v.block, v.state()); ok {
				return val
			}
		}
		if val, ok := v.e.params[name]; ok {
			// free variables of closures are cells: the name denotes the content
			if pv, ok := val.(PtrV); ok && v.e.isFreeVar(name) {
				for _, fv := range v.e.fn.FreeVars {
					if fv.Name() == name && v.e.cellIsFinal(fv) {
						if cv, ok := v.e.finalCells[fv]; ok {
							return cv
						}
						cv := v.e.loadAt(v.e.entry, pv)
						v.e.finalCells[fv] = cv
						return cv
					}
				}
				return v.e.loadAt(v.state(), pv)
			}
			return val
		}
		if v.block != nil {
			if val, ok := v.e.lookupLocal(name, v.block, v.state()); ok {
				return val
			}
		}
	}
	// a clause supplied by the caller for code executed in place may use the caller's names
	if !v.site {
		for p := v.e.parent; p != nil; p = p.parent {
			if val, ok := p.lets[name]; ok {
				return val
			}
			if val, ok := p.params[name]; ok {
				return val
			}
		}
	}
	// package-level objects
	if v.pkg != nil {
		if obj := v.pkg.Scope().Lookup(name); obj != nil {
			return v.object(obj)
		}
	}
	if obj := types.Universe.Lookup(name); obj != nil {
		if c, ok := obj.(*types.Const); ok {
			return v.constVal(c)
		}
	}
	v.fail("unknown identifier %q", name)
	return nil
}

func (e *Exec) isFreeVar(name string) bool {
	for _, fv := range e.fn.FreeVars {
		if fv.Name() == name {
			return true
		}
	}
	return false
}

func (v *Env) constVal(c *types.Const) Value {
	switch c.Val().Kind() {
	case constant.Bool:
		return Scalar{BoolT(constant.BoolVal(c.Val()))}
	case constant.Int:
		if b, ok := under(c.Type()).(*types.Basic); ok && b.Info()&types.IsUntyped == 0 {
			return Scalar{Const(bigOfConst(c.Val()), sortOfBasic(b))}
		}
		return UntypedInt{bigOfConst(c.Val())}
	case constant.String:
		s := constant.StringVal(c.Val())
		return StringV{ID: v.e.stringID(s), Len: ConstI(int64(len(s)), I64)}
	}
	v.fail("constant %s of unsupported kind", c.Name())
	return nil
}

func (v *Env) object(obj types.Object) Value {
	switch o := obj.(type) {
	case *types.Const:
		return v.constVal(o)
	case *types.Var:
		// package-level variable
		sp := v.e.P.SPkgs[o.Pkg().Path()]
		if sp != nil {
			if g, ok := sp.Members[o.Name()].(*ssa.Global); ok {
				gp := v.e.globalPtr(g)
				if gp.Kind == pArr || gp.Kind == pObj {
					return gp // arrays and structs: the location stands for the value
				}
				return v.e.loadAt(v.state(), gp)
			}
		}
	case *types.Func:
		sp := v.e.P.SPkgs[o.Pkg().Path()]
		if sp != nil {
			if f := sp.Func(o.Name()); f != nil {
				return FuncV{ID: v.e.funcID(f), Static: f}
			}
		}
	case *types.TypeName:
		return typeValue{o.Type()}
	case *types.PkgName:
		return pkgValue{o.Imported()}
	}
	v.fail("cannot use %s in a contract", obj)
	return nil
}

type GhostMapV struct{ Name string }

type typeValue struct{ T types.Type }
type pkgValue struct{ P *types.Package }

func (v *Env) lookupPkg(name string) *types.Package {
	// imported by the function's package under that name?
	if v.pkg != nil {
		for _, imp := range v.pkg.Imports() {
			if imp.Name() == name {
				return imp
			}
		}
	}
	for path, sp := range v.e.P.SPkgs {
		if sp.Pkg.Name() == name && (strings.HasPrefix(path, modPath) || !strings.Contains(path, "/")) {
			return sp.Pkg
		}
	}
	for _, sp := range v.e.P.SPkgs {
		if sp.Pkg.Name() == name {
			return sp.Pkg
		}
	}
	return nil
}

func (v *Env) unary(x *SExpr) Value {
	switch x.Op {
	case "!":
		return Scalar{v.evalBool(x)}
	case "-":
		a := v.eval(x.Args[0])
		if u, ok := a.(UntypedInt); ok {
			return UntypedInt{new(big.Int).Neg(u.V)}
		}
		return Scalar{Neg(v.e.scalarOf(a))}
	case "^":
		a := v.eval(x.Args[0])
		if u, ok := a.(UntypedInt); ok {
			return UntypedInt{new(big.Int).Not(u.V)}
		}
		return Scalar{BitNot(v.e.scalarOf(a))}
	case "&":
		return v.loc(x.Args[0])
	case "*":
		p, ok := v.eval(x.Args[0]).(PtrV)
		if !ok {
			v.fail("* of non-pointer %s", x.Args[0])
		}
		return v.e.loadAt(v.state(), p)
	}
	v.fail("unary %s", x.Op)
	return nil
}

// structField: x (possibly under old) selected a struct-typed field in the evaluation just made
func (v *Env) structField(x *SExpr) bool {
	if x.Kind == SCall && len(x.Args) == 2 && x.Args[0].Kind == SIdent && x.Args[0].Name == "old" {
		x = x.Args[1]
	}
	return x.Kind == SSel && v.e.structSel[x]
}

func (v *Env) contentOf(x *SExpr, loc Value) Value {
	p, ok := loc.(PtrV)
	if !ok {
		return loc
	}
	if x.Kind == SCall && len(x.Args) == 2 && x.Args[0].Kind == SIdent && x.Args[0].Name == "old" {
		saved := v.inOld
		v.inOld = true
		defer func() { v.inOld = saved }()
	}
	return v.e.loadAt(v.state(), p)
}

var tokOf = map[string]token.Token{"+": token.ADD, "-": token.SUB, "*": token.MUL, "/": token.QUO, "%": token.REM,
	"&": token.AND, "|": token.OR, "^": token.XOR, "&^": token.AND_NOT, "<<": token.SHL, ">>": token.SHR,
	"==": token.EQL, "!=": token.NEQ, "<": token.LSS, "<=": token.LEQ, ">": token.GTR, ">=": token.GEQ}

func (v *Env) binary(x *SExpr) Value {
	switch x.Op {
	case "&&", "||":
		return Scalar{v.evalBool(x)}
	}
	a, b := v.eval(x.Args[0]), v.eval(x.Args[1])
	if x.Op == "==" || x.Op == "!=" {
		// x.f == y.g where both fields hold structs compares the structs, as in Go (a struct-typed
		// field otherwise denotes its location)
		_, sa := a.(StructV)
		_, sb := b.(StructV)
		fa, fb := v.structField(x.Args[0]), v.structField(x.Args[1])
		if (fa || sa) && (fb || sb) {
			if fa {
				a = v.contentOf(x.Args[0], a)
			}
			if fb {
				b = v.contentOf(x.Args[1], b)
			}
		}
	}
	ua, aok := a.(UntypedInt)
	ub, bok := b.(UntypedInt)
	if aok && bok {
		r := new(big.Int)
		switch x.Op {
		case "+":
			return UntypedInt{r.Add(ua.V, ub.V)}
		case "-":
			return UntypedInt{r.Sub(ua.V, ub.V)}
		case "*":
			return UntypedInt{r.Mul(ua.V, ub.V)}
		case "/":
			return UntypedInt{r.Quo(ua.V, ub.V)}
		case "<<":
			return UntypedInt{r.Lsh(ua.V, uint(ub.V.Int64()))}
		case ">>":
			return UntypedInt{r.Rsh(ua.V, uint(ub.V.Int64()))}
		case "==":
			return Scalar{BoolT(ua.V.Cmp(ub.V) == 0)}
		case "<":
			return Scalar{BoolT(ua.V.Cmp(ub.V) < 0)}
		case "<=":
			return Scalar{BoolT(ua.V.Cmp(ub.V) <= 0)}
		}
		v.fail("constant operator %s", x.Op)
	}
	if x.Op == "<<" || x.Op == ">>" {
		if aok {
			a = Scalar{Const(ua.V, I64)}
		}
		if bok {
			b = Scalar{Const(ub.V, U64)}
		}
	} else {
		a, b = v.unify(a, b)
	}
	// nil comparisons against slices/pointers/funcs
	if x.Op == "==" || x.Op == "!=" {
		if iv, ok := b.(IfaceV); ok && isZero(iv.ID) && iv.Dyn == nil {
			if sl, isSl := a.(SliceV); isSl {
				r := Eq(sl.Ptr, ConstI(0, Ref))
				if x.Op == "!=" {
					r = Not(r)
				}
				return Scalar{r}
			}
			b = v.nilLike(a)
		} else if iv, ok := a.(IfaceV); ok && isZero(iv.ID) && iv.Dyn == nil {
			if sl, isSl := b.(SliceV); isSl {
				r := Eq(sl.Ptr, ConstI(0, Ref))
				if x.Op == "!=" {
					r = Not(r)
				}
				return Scalar{r}
			}
			a = v.nilLike(b)
		}
	}
	op := tokOf[x.Op]
	return v.e.specBinop(op, a, b)
}

func (v *Env) nilLike(a Value) Value {
	switch x := a.(type) {
	case SliceV:
		return SliceV{Ptr: ConstI(0, Ref), Len: ConstI(0, I64), Cap: ConstI(0, I64), Elem: x.Elem}
	case PtrV:
		r := x
		r.Addr = ConstI(0, Ref)
		return r
	case FuncV:
		return FuncV{ID: ConstI(0, Ref)}
	case Scalar:
		return Scalar{ConstI(0, x.T.Sort)}
	}
	return IfaceV{ID: ConstI(0, Ref)}
}

// specBinop: like binop but without safety obligations (division by zero in a contract is
// simply unspecified).
func (e *Exec) specBinop(op token.Token, a, b Value) Value {
	switch op {
	case token.EQL, token.NEQ:
		var eq *Term
		sa, aok := a.(SliceV)
		sb, bok := b.(SliceV)
		if aok && bok {
			// in contracts slices are compared as headers (same window)
			eq = And(Eq(sa.Ptr, sb.Ptr), Eq(sa.Len, sb.Len), Eq(sa.Cap, sb.Cap))
		} else {
			eq = e.valuesEqual(a, b)
		}
		if op == token.NEQ {
			eq = Not(eq)
		}
		return Scalar{eq}
	}
	x, y := e.scalarOf(a), e.scalarOf(b)
	if x.Sort != y.Sort && op != token.SHL && op != token.SHR {
		e.errorf("contract: operands of %s have different types (%s, %s)", op, x.Sort, y.Sort)
	}
	switch op {
	case token.ADD:
		return Scalar{Add(x, y)}
	case token.SUB:
		return Scalar{Sub(x, y)}
	case token.MUL:
		return Scalar{Mul(x, y)}
	case token.QUO:
		return Scalar{Arith(ODiv, x, y)}
	case token.REM:
		return Scalar{Arith(ORem, x, y)}
	case token.AND:
		return Scalar{Arith(OBitAnd, x, y)}
	case token.OR:
		return Scalar{Arith(OBitOr, x, y)}
	case token.XOR:
		return Scalar{Arith(OBitXor, x, y)}
	case token.AND_NOT:
		return Scalar{Arith(OBitAndNot, x, y)}
	case token.SHL:
		return Scalar{Shift(OShl, x, y)}
	case token.SHR:
		return Scalar{Shift(OShr, x, y)}
	case token.LSS:
		return Scalar{Lt(x, y)}
	case token.LEQ:
		return Scalar{Le(x, y)}
	case token.GTR:
		return Scalar{Lt(y, x)}
	case token.GEQ:
		return Scalar{Le(y, x)}
	}
	e.errorf("contract operator %s", op)
	return nil
}

// loc evaluates an expression to a pointer to its location.
func (v *Env) loc(x *SExpr) PtrV {
	switch x.Kind {
	case SSel:
		base := v.eval(x.Args[0])
		p, ok := base.(PtrV)
		if !ok {
			v.fail("cannot take the location of %s (base is %T)", x, base)
		}
		su, ok := structOf(p.T)
		if !ok {
			v.fail("%s: not a struct", x.Args[0])
		}
		idx, path := findField(su, x.Name)
		if idx < 0 {
			v.fail("no field %s in %s", x.Name, p.T)
		}
		for _, pi := range path {
			p = v.e.fieldAddr(p, pi, v.state())
		}
		return v.e.fieldAddr(p, idx, v.state())
	case SIndex:
		base := v.eval(x.Args[0])
		i := v.e.toI64(v.eval(x.Args[1]))
		switch b := base.(type) {
		case SliceV:
			return v.e.elemPtr("elem:"+typeName(b.Elem), AddNW(b.Ptr, i), b.Elem)
		case PtrV:
			if b.Kind == pArr {
				return v.e.elemPtr(b.Key, AddNW(b.Addr, i), under(b.T).(*types.Array).Elem())
			}
		}
		v.fail("cannot index %s", x.Args[0])
	case SIdent:
		// a struct-typed field location reached through an identifier that is itself a pointer
		val := v.eval(x)
		if p, ok := val.(PtrV); ok {
			return p
		}
	case SUnary:
		if x.Op == "*" {
			if p, ok := v.eval(x.Args[0]).(PtrV); ok {
				return p
			}
		}
	}
	v.fail("not addressable: %s", x)
	return PtrV{}
}

// findField finds a (possibly promoted) field; path lists the embedded fields to traverse.
func findField(su *types.Struct, name string) (int, []int) {
	for i := 0; i < su.NumFields(); i++ {
		if su.Field(i).Name() == name {
			return i, nil
		}
	}
	for i := 0; i < su.NumFields(); i++ {
		f := su.Field(i)
		if !f.Embedded() {
			continue
		}
		if inner, ok := structOf(f.Type()); ok {
			if idx, p := findField(inner, name); idx >= 0 {
				return idx, append([]int{i}, p...)
			}
		}
	}
	return -1, nil
}

func (v *Env) selector(x *SExpr) Value {
	// package-qualified name?
	if x.Args[0].Kind == SIdent {
		nm := x.Args[0].Name
		if _, isVar := v.vars[nm]; !isVar && !v.isLocalName(nm) {
			if pk := v.lookupPkg(nm); pk != nil {
				if v.e.C.GhostMaps[x.Name] {
					return GhostMapV{x.Name}
				}
				obj := pk.Scope().Lookup(x.Name)
				if obj == nil {
					v.fail("%s.%s not found", nm, x.Name)
				}
				return v.object(obj)
			}
		}
	}
	base := v.eval(x.Args[0])
	if iv, ok := base.(IfaceV); ok {
		if pv, ok := v.e.devirt(iv, nil); ok {
			v2 := *v
			v2.vars = map[string]Value{"$dv": pv}
			for k, val := range v.vars {
				v2.vars[k] = val
			}
			return v2.selector(&SExpr{Kind: SSel, Name: x.Name, Args: []*SExpr{{Kind: SIdent, Name: "$dv"}}})
		}
	}
	switch b := base.(type) {
	case StructV:
		su, _ := structOf(b.T)
		idx, path := findField(su, x.Name)
		if idx < 0 {
			v.fail("no field %s in %s", x.Name, b.T)
		}
		cur := b
		for _, pi := range path {
			cur = cur.Fields[pi].(StructV)
		}
		return cur.Fields[idx]
	case PtrV:
		if _, ok := structOf(b.T); ok {
			su, _ := structOf(b.T)
			if idx, _ := findField(su, x.Name); idx >= 0 {
				p := v.loc(x)
				if p.Kind == pObj || p.Kind == pArr || p.Kind == pElem {
					// struct-typed or array-typed field: its "value" in a contract is its location
					if p.Kind == pObj || p.Kind == pArr {
						if p.Kind == pObj {
							if v.e.structSel == nil {
								v.e.structSel = map[*SExpr]bool{}
							}
							v.e.structSel[x] = true
						}
						return p
					}
				}
				return v.e.loadAt(v.state(), p)
			}
		}
		// bound method value  x.M  (compared with stored handlers)
		if fn := v.findMethod(b, x.Name); fn != nil {
			key := funcKey(fn) + "$bound"
			id := App("closure:"+key, Ref, b.Addr)
			return FuncV{ID: id}
		}
		// pointer to pointer (cell): auto-deref
		if b.Kind == pLoc {
			inner := v.e.loadAt(v.state(), b)
			if ip, ok := inner.(PtrV); ok {
				v2 := *v
				v2.vars = map[string]Value{"$tmp": ip}
				for k, val := range v.vars {
					v2.vars[k] = val
				}
				return v2.selector(&SExpr{Kind: SSel, Name: x.Name, Args: []*SExpr{{Kind: SIdent, Name: "$tmp"}}})
			}
		}
	}
	v.fail("cannot select %s from %s (%T)", x.Name, x.Args[0], base)
	return nil
}

func (v *Env) isLocalName(nm string) bool {
	if v.site {
		return false
	}
	if _, ok := v.e.params[nm]; ok {
		return true
	}
	if _, ok := v.e.lets[nm]; ok {
		return true
	}
	return false
}

func (v *Env) index(x *SExpr) Value {
	base := v.eval(x.Args[0])
	switch b := base.(type) {
	case GhostMapV:
		i := v.e.toI64(v.eval(x.Args[1]))
		return Scalar{v.e.ctx.read(v.state(), "ghost:"+b.Name, I64, i)}
	case SliceV, PtrV:
		_ = b
		return v.e.loadAt(v.state(), v.loc(x))
	case ArrayV:
		i := v.e.toI64(v.eval(x.Args[1]))
		if len(b.Elems) == 0 {
			v.fail("index into empty array")
		}
		val := b.Elems[len(b.Elems)-1]
		for k := len(b.Elems) - 2; k >= 0; k-- {
			val = v.e.iteValue(Eq(i, ConstI(int64(k), I64)), b.Elems[k], val)
		}
		return val
	}
	v.fail("cannot index %s (%T)", x.Args[0], base)
	return nil
}

func (v *Env) slice(x *SExpr) Value {
	base := v.eval(x.Args[0])
	var s SliceV
	switch b := base.(type) {
	case SliceV:
		s = b
	case PtrV:
		if b.Kind == pArr {
			au := under(b.T).(*types.Array)
			s = SliceV{Ptr: b.Addr, Len: ConstI(au.Len(), I64), Cap: ConstI(au.Len(), I64), Elem: au.Elem()}
		} else {
			v.fail("cannot slice %s", x.Args[0])
		}
	default:
		v.fail("cannot slice %s (%T)", x.Args[0], base)
	}
	lo := ConstI(0, I64)
	hi := s.Len
	if x.Args[1] != nil {
		lo = v.e.toI64(v.eval(x.Args[1]))
	}
	if x.Args[2] != nil {
		hi = v.e.toI64(v.eval(x.Args[2]))
	}
	return SliceV{Ptr: AddNW(s.Ptr, lo), Len: Sub(hi, lo), Cap: Sub(s.Cap, lo), Elem: s.Elem}
}

func (v *Env) call(x *SExpr) Value {
	fun := x.Args[0]
	args := x.Args[1:]
	if fun.Kind == SIdent {
		switch fun.Name {
		case "old":
			if len(args) != 1 {
				v.fail("old takes one argument")
			}
			saved := v.inOld
			v.inOld = true
			defer func() { v.inOld = saved }()
			return v.eval(args[0])
		case "len", "cap":
			a := v.eval(args[0])
			switch s := a.(type) {
			case SliceV:
				if fun.Name == "len" {
					return Scalar{s.Len}
				}
				return Scalar{s.Cap}
			case StringV:
				return Scalar{s.Len}
			case ArrayV:
				return Scalar{ConstI(int64(len(s.Elems)), I64)}
			case PtrV:
				if au, ok := under(s.T).(*types.Array); ok {
					return Scalar{ConstI(au.Len(), I64)}
				}
			}
			v.fail("%s of %T", fun.Name, a)
		case "min", "max":
			a, b := v.unify(v.eval(args[0]), v.eval(args[1]))
			ta, tb := v.e.scalarOf(a), v.e.scalarOf(b)
			if fun.Name == "min" {
				return Scalar{Ite(Le(ta, tb), ta, tb)}
			}
			return Scalar{Ite(Le(ta, tb), tb, ta)}
		case "ptr": // address of the first element of a slice (for aliasing statements)
			a := v.eval(args[0])
			if s, ok := a.(SliceV); ok {
				return Scalar{s.Ptr}
			}
			if p, ok := a.(PtrV); ok {
				return Scalar{p.Addr}
			}
			v.fail("ptr of %T", a)
		case "alias": // alias(s, t): same pointer and length
			a, ok1 := v.eval(args[0]).(SliceV)
			b, ok2 := v.eval(args[1]).(SliceV)
			if !ok1 || !ok2 {
				v.fail("alias needs two slices")
			}
			return Scalar{And(Eq(a.Ptr, b.Ptr), Eq(a.Len, b.Len))}
		case "disjoint": // address ranges of two slices do not overlap
			a, ok1 := v.eval(args[0]).(SliceV)
			b, ok2 := v.eval(args[1]).(SliceV)
			if !ok1 || !ok2 {
				v.fail("disjoint needs two slices")
			}
			z := ConstI(0, I64)
			return Scalar{Or(Le(a.Len, z), Le(b.Len, z), Le(AddNW(a.Ptr, a.Len), b.Ptr), Le(AddNW(b.Ptr, b.Len), a.Ptr))}
		case "unchanged_except": // memory of s's element type equals the entry memory outside s[0:len(s)]
			a, ok := v.eval(args[0]).(SliceV)
			if !ok {
				v.fail("unchanged_except needs a slice")
			}
			return Scalar{v.unchangedExcept(a)}
		case "errno": // the error value wrapping a syscall.Errno
			a := v.unifyInt(v.eval(args[0]))
			return IfaceV{ID: App("iface:syscall.Errno", Ref, Conv(a, Ref))}
		case "iszero": // the value equals the zero value of its type
			a := v.eval(args[0])
			return Scalar{v.e.isZeroValue(a)}
		case "heapslice": // storage of s was allocated dynamically (it is not an array field)
			a, ok := v.eval(args[0]).(SliceV)
			if !ok {
				v.fail("heapslice needs a slice")
			}
			return Scalar{Le(AddNW(a.Ptr, a.Cap), ConstI(staticBase, Ref))}
		case "fresh": // fresh(s): slice storage allocated during the call
			a, ok := v.eval(args[0]).(SliceV)
			if !ok {
				v.fail("fresh needs a slice")
			}
			return Scalar{And(Le(v.old.allocTop, a.Ptr), Lt(a.Ptr, ConstI(staticBase, Ref)))}
		case "freshobj": // freshobj(p): the object p points to was allocated during the call
			a, ok := v.eval(args[0]).(PtrV)
			if !ok {
				v.fail("freshobj needs a pointer")
			}
			return Scalar{Le(v.old.refTop, a.Addr)}
		case "ite":
			c := v.withNeg(func() *Term { return v.evalBool(args[0]) })
			a, b := v.unify(v.eval(args[1]), v.eval(args[2]))
			return v.e.iteValue(c, a, b)
		case "invoked":
			// number of times this activation completed the given function value
			if v.siteInvoked != nil && args[0].Kind == SIdent {
				if t, ok := v.siteInvoked[args[0].Name]; ok {
					return Scalar{t}
				}
			}
			fvv := v.eval(args[0])
			id := v.e.scalarOf(fvv)
			return Scalar{Sub(v.e.invGet(v.state(), id), v.e.invGet(v.e.entry, id))}
		case "ghost":
			return Scalar{v.e.ghostGet(v.state(), args[0].String())}
		}
		// predicate?
		if pd := v.lookupPred(fun.Name); pd != nil {
			return v.applyPred(pd, args)
		}
		// conversion?
		if t := v.lookupType(fun.Name); t != nil {
			return v.conversion(t, args)
		}
		// package-level pure function
		val := v.ident(fun.Name)
		if fv, ok := val.(FuncV); ok && fv.Static != nil {
			var avs []Value
			for _, a := range args {
				avs = append(avs, v.eval(a))
			}
			return v.pureCall(fv.Static, avs)
		}
	}
	if fun.Kind == SSel {
		// pkg.Func / pkg.Type(...) / x.Method(...)
		if fun.Args[0].Kind == SIdent {
			nm := fun.Args[0].Name
			if _, isVar := v.vars[nm]; !isVar && !v.isLocalName(nm) {
				// method expression  T.Method(recv, args...)
				if t := v.lookupType(nm); t != nil && len(args) >= 1 {
					for _, rt := range []types.Type{t, types.NewPointer(t)} {
						ms := v.e.P.Prog.MethodSets.MethodSet(rt)
						for i := 0; i < ms.Len(); i++ {
							if ms.At(i).Obj().Name() == fun.Name {
								var avs []Value
								for _, a := range args {
									avs = append(avs, v.eval(a))
								}
								return v.pureCall(v.e.P.Prog.MethodValue(ms.At(i)), avs)
							}
						}
					}
					v.fail("type %s has no method %s", nm, fun.Name)
				}
				if pk := v.lookupPkg(nm); pk != nil {
					obj := pk.Scope().Lookup(fun.Name)
					switch o := obj.(type) {
					case *types.TypeName:
						return v.conversion(o.Type(), args)
					case *types.Func:
						fv := v.object(o).(FuncV)
						var avs []Value
						for _, a := range args {
							avs = append(avs, v.eval(a))
						}
						return v.pureCall(fv.Static, avs)
					}
					if pd := v.e.C.Preds[pk.Path()+"."+fun.Name]; pd != nil {
						return v.applyPred(pd, args)
					}
					v.fail("%s.%s is not callable in a contract", nm, fun.Name)
				}
			}
		}
		recv := v.eval(fun.Args[0])
		fn := v.findMethod(recv, fun.Name)
		if fn == nil {
			v.fail("method %s not found on %s", fun.Name, fun.Args[0])
		}
		avs := []Value{recv}
		// value receiver with pointer value
		if p, ok := recv.(PtrV); ok {
			if _, isPtr := fn.Signature.Recv().Type().(*types.Pointer); !isPtr {
				avs[0] = v.e.loadAt(v.state(), p)
			}
		}
		for _, a := range args {
			avs = append(avs, v.eval(a))
		}
		return v.pureCall(fn, avs)
	}
	v.fail("cannot call %s", fun)
	return nil
}

func (v *Env) lookupPred(name string) *PredDef {
	if v.pkg != nil {
		if pd := v.e.C.Preds[v.pkg.Path()+"."+name]; pd != nil {
			return pd
		}
	}
	return v.e.C.Preds[name]
}

func (v *Env) applyPred(pd *PredDef, args []*SExpr) Value {
	if len(args) != len(pd.Params) {
		v.fail("predicate %s takes %d arguments", pd.Name, len(pd.Params))
	}
	nv := *v
	nv.vars = map[string]Value{}
	nv.site = true
	for i, a := range args {
		nv.vars[pd.Params[i]] = v.eval(a)
	}
	// predicates see bound variables of the caller too (for forall bodies)
	for k, val := range v.vars {
		if _, ok := nv.vars[k]; !ok {
			nv.vars[k] = val
		}
	}
	if pk := v.e.P.SPkgs[pd.Pkg]; pk != nil {
		nv.pkg = pk.Pkg
	}
	return nv.eval(pd.Body)
}

func (v *Env) lookupType(name string) types.Type {
	if obj := types.Universe.Lookup(name); obj != nil {
		if tn, ok := obj.(*types.TypeName); ok {
			return tn.Type()
		}
	}
	if v.pkg != nil {
		if obj := v.pkg.Scope().Lookup(name); obj != nil {
			if tn, ok := obj.(*types.TypeName); ok {
				return tn.Type()
			}
		}
	}
	return nil
}

func (v *Env) conversion(t types.Type, args []*SExpr) Value {
	if len(args) != 1 {
		v.fail("conversion takes one argument")
	}
	a := v.eval(args[0])
	b, ok := under(t).(*types.Basic)
	if !ok || b.Info()&types.IsInteger == 0 {
		return v.e.retype(a, t)
	}
	s := sortOfBasic(b)
	switch x := a.(type) {
	case UntypedInt:
		return Scalar{Const(x.V, s)}
	case Scalar:
		return Scalar{Conv(x.T, s)}
	}
	v.fail("conversion of %T", a)
	return nil
}

func (v *Env) findMethod(recv Value, name string) *ssa.Function {
	var t types.Type
	switch r := recv.(type) {
	case PtrV:
		t = types.NewPointer(r.T)
	case StructV:
		t = r.T
	case SliceV:
		// named slice types (websocket.Frame): the value does not carry its named type
		return nil
	default:
		return nil
	}
	ms := v.e.P.Prog.MethodSets.MethodSet(t)
	for i := 0; i < ms.Len(); i++ {
		if ms.At(i).Obj().Name() == name {
			return v.e.P.Prog.MethodValue(ms.At(i))
		}
	}
	return nil
}

// pureCall executes a side-effect-free function symbolically in the current (or old) state.
func (v *Env) pureCall(fn *ssa.Function, args []Value) Value {
	ws := v.e.fx().of(fn)
	if ws.Top || len(ws.Fams) > 0 {
		v.fail("function %s is used in a contract but is not pure (writes %v)", fn, ws.keys())
	}
	for i, a := range args {
		if u, ok := a.(UntypedInt); ok {
			pt := fn.Params[i].Type()
			if b, ok := under(pt).(*types.Basic); ok {
				args[i] = Scalar{Const(u.V, sortOfBasic(b))}
			}
		}
	}
	st := v.state().clone()
	st.pc = True
	res := v.e.inlineCall(fn, args, st, true)
	if len(res) == 1 {
		return res[0]
	}
	return TupleV(res)
}

// unchangedExcept: for every address that existed in the old state and lies outside s[0:len(s)]
// the element memory equals the old one.
func (v *Env) unchangedExcept(s SliceV) *Term {
	if v.neg {
		v.fail("unchanged_except in negative position")
	}
	e := v.e
	cur, old := v.cur, v.old
	lo, hi := s.Ptr, AddNW(s.Ptr, s.Len)
	res := True
	for _, lf := range e.leafFamilies(s.Elem, "elem:"+typeName(s.Elem)) {
		mc := e.ctx.family(cur, lf.key, lf.sort)
		mo := e.ctx.family(old, lf.key, lf.sort)
		if mc == mo {
			continue
		}
		// only memory that existed in the old state is constrained: what was allocated in
		// between is new, not "changed"
		body := func(a *Term) *Term {
			ex := Or(Lt(a, old.allocTop), And(Le(ConstI(staticBase, Ref), a), Lt(a, ConstI(staticBase*2, Ref))))
			return Imp(And(ex, Or(Lt(a, lo), Le(hi, a))), Eq(e.ctx.mc.Read(mc, a), e.ctx.mc.Read(mo, a)))
		}
		if v.polarity == polProve {
			a := Fresh("sk.addr", Ref)
			res = And(res, body(a))
			continue
		}
		pc := cur.pc
		q := &QHyp{at: len(e.ctx.hyps), idx: len(e.ctx.qhyps), nvars: 1, cache: map[string]*Term{}, desc: "unchanged_except " + lf.key, pc: pc}
		q.trigs = [][]qtrig{{{family: lf.key, solve: func(addr *Term) *Term { return addr }}}}
		q.body = func(as []*Term) *Term { return Imp(pc, body(as[0])) }
		e.ctx.qhyps = append(e.ctx.qhyps, q)
	}
	return res
}

func (e *Exec) isZeroValue(a Value) *Term {
	switch x := a.(type) {
	case Scalar:
		if x.T.Sort.Kind == SBool {
			return Not(x.T)
		}
		return Eq(x.T, ConstI(0, x.T.Sort))
	case UntypedInt:
		return BoolT(x.V.Sign() == 0)
	case SliceV:
		return And(Eq(x.Ptr, ConstI(0, Ref)), Eq(x.Len, ConstI(0, I64)), Eq(x.Cap, ConstI(0, I64)))
	case StringV:
		return Eq(x.Len, ConstI(0, I64))
	case StructV:
		r := True
		for _, f := range x.Fields {
			r = And(r, e.isZeroValue(f))
		}
		return r
	case ArrayV:
		r := True
		for _, f := range x.Elems {
			r = And(r, e.isZeroValue(f))
		}
		return r
	case PtrV:
		return Eq(x.Addr, ConstI(0, Ref))
	case IfaceV:
		return Eq(x.ID, ConstI(0, Ref))
	case FuncV:
		return Eq(x.ID, ConstI(0, Ref))
	}
	e.errorf("iszero of %T", a)
	return nil
}

func (v *Env) unifyInt(a Value) *Term {
	switch x := a.(type) {
	case UntypedInt:
		return Const(x.V, IntSort(64, false))
	case Scalar:
		return x.T
	}
	v.fail("integer expected")
	return nil
}

func (v *Env) untypedTo(a Value, s *Sort) Value {
	if isUntyped(a) {
		return Scalar{v.e.typedUntyped(a, s)}
	}
	return a
}
