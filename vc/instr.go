package main

import (
	"fmt"
	"go/constant"
	"go/token"
	"go/types"
	"math/big"
	"strings"

	"golang.org/x/tools/go/ssa"
)

func bigOfConst(v constant.Value) *big.Int {
	iv := constant.ToInt(v)
	if iv.Kind() != constant.Int {
		return big.NewInt(0)
	}
	if x, ok := constant.Int64Val(iv); ok {
		return big.NewInt(x)
	}
	b, _ := new(big.Int).SetString(iv.ExactString(), 10)
	return b
}

func (e *Exec) execInstr(ins ssa.Instruction, st *State) {
	switch x := ins.(type) {
	case *ssa.Alloc:
		e.vals[x] = e.alloc(x.Type().(*types.Pointer).Elem(), st, x.Comment)
	case *ssa.BinOp:
		e.vals[x] = e.binop(x.Op, e.val(x.X), e.val(x.Y), x.X.Type(), st, x.Pos())
	case *ssa.UnOp:
		e.vals[x] = e.unop(x, st)
	case *ssa.Call:
		e.vals[x] = e.doCall(x, &x.Call, st)
	case *ssa.ChangeInterface:
		e.vals[x] = e.val(x.X)
	case *ssa.ChangeType:
		e.vals[x] = e.retype(e.val(x.X), x.Type())
	case *ssa.Convert:
		e.vals[x] = e.convert(e.val(x.X), x.X.Type(), x.Type(), st)
	case *ssa.Extract:
		e.vals[x] = e.val(x.Tuple).(TupleV)[x.Index]
	case *ssa.FieldAddr:
		p := e.val(x.X).(PtrV)
		e.safe("nil", st, Ne(p.Addr, ConstI(0, Ref)), x.Pos())
		e.vals[x] = e.fieldAddr(p, x.Field, st)
	case *ssa.Field:
		e.vals[x] = e.val(x.X).(StructV).Fields[x.Field]
	case *ssa.IndexAddr:
		e.vals[x] = e.indexAddr(x, st)
	case *ssa.Index:
		e.vals[x] = e.indexValue(x, st)
	case *ssa.Lookup:
		if x.CommaOk {
			e.vals[x] = TupleV{e.freshValue("lookup", x.Type().(*types.Tuple).At(0).Type(), st), Scalar{Fresh("lookup.ok", BoolSort)}}
		} else {
			e.vals[x] = e.freshValue("lookup", x.Type(), st)
		}
	case *ssa.MakeClosure:
		fn := x.Fn.(*ssa.Function)
		var binds []Value
		var ids []*Term
		for _, b := range x.Bindings {
			v := e.val(b)
			binds = append(binds, v)
			ids = append(ids, e.bindingID(v))
		}
		id := App("closure:"+funcKey(fn), Ref, ids...)
		e.ctx.assume(Lt(ConstI(0, Ref), id))
		// a closure created now is not any function value that existed at entry
		for _, p := range e.fn.Params {
			if pv, ok := e.vals[p].(FuncV); ok {
				e.ctx.assume(Ne(id, pv.ID))
			}
		}
		e.vals[x] = FuncV{ID: id, Static: fn, Bindings: binds}
	case *ssa.MakeInterface:
		v := e.val(x.X)
		id := e.ifaceID(v, x.X.Type())
		e.vals[x] = IfaceV{ID: id, Dyn: v, DynT: x.X.Type()}
	case *ssa.MakeMap:
		id := Fresh("map", Ref)
		e.ctx.assume(Lt(ConstI(0, Ref), id))
		e.vals[x] = Scalar{id}
	case *ssa.MakeSlice:
		e.vals[x] = e.makeSlice(x, st)
	case *ssa.Slice:
		e.vals[x] = e.sliceOp(x, st)
	case *ssa.Store:
		p, ok := e.val(x.Addr).(PtrV)
		if !ok {
			e.errorf("store through %T", e.val(x.Addr))
		}
		e.safe("nil", st, Ne(p.Addr, ConstI(0, Ref)), x.Pos())
		e.guardedAccess(p, st, x.Pos(), "write")
		e.storeAt(st, p, e.val(x.Val))
	case *ssa.TypeAssert:
		e.vals[x] = e.typeAssert(x, st)
	case *ssa.MapUpdate:
		// maps are not modelled: reads are unconstrained, writes dropped
	case *ssa.Defer:
		if ins.Block() != e.fn.Blocks[0] {
			e.errorf("defer outside the entry block")
		}
		e.defers = append(e.defers, x)
	case *ssa.RunDefers:
		// handled at Return
	case *ssa.Go, *ssa.Send, *ssa.Select, *ssa.MakeChan, *ssa.Range, *ssa.Next:
		e.errorf("instruction %T (goroutines/channels/map iteration are outside the subset)", ins)
	default:
		e.errorf("instruction %T", ins)
	}
}

func (e *Exec) storeHook(p PtrV, st *State) {}

func (e *Exec) bindingID(v Value) *Term {
	switch x := v.(type) {
	case Scalar:
		if x.T.Sort.Kind == SBool {
			return Ite(x.T, ConstI(1, Ref), ConstI(0, Ref))
		}
		return Conv(x.T, Ref)
	case PtrV:
		return x.Addr
	case IfaceV:
		return x.ID
	case FuncV:
		return x.ID
	case SliceV:
		return x.Ptr
	}
	return ConstI(0, Ref)
}

func (e *Exec) ifaceID(v Value, t types.Type) *Term {
	var inner *Term
	switch x := v.(type) {
	case PtrV:
		inner = x.Addr
	case Scalar:
		if x.T.Sort.Kind == SBool {
			inner = Ite(x.T, ConstI(1, Ref), ConstI(0, Ref))
		} else {
			inner = Conv(x.T, Ref)
		}
	case IfaceV:
		return x.ID
	case FuncV:
		inner = x.ID
	case StringV:
		inner = x.ID
	default:
		inner = Fresh("ifaceval", Ref)
	}
	id := App("iface:"+typeName(t), Ref, inner)
	e.ctx.assume(Lt(ConstI(0, Ref), id)) // an interface holding a value is not nil
	if _, isPtr := v.(PtrV); isPtr {
		e.ctx.assume(Eq(App("ifaceptr", Ref, id), inner))
	}
	return id
}

func (e *Exec) retype(v Value, t types.Type) Value {
	switch x := v.(type) {
	case SliceV:
		if s, ok := under(t).(*types.Slice); ok {
			x.Elem = s.Elem()
		}
		return x
	case StructV:
		x.T = t
		return x
	case PtrV:
		if pt, ok := under(t).(*types.Pointer); ok {
			if x.FirstClass {
				return e.ptrFromTerm(x.Addr, pt.Elem())
			}
			x.T = pt.Elem()
		}
		return x
	}
	return v
}

// alloc a fresh object of type t (zero-initialised)
const refStride = 1024

func (e *Exec) alloc(t types.Type, st *State, comment string) PtrV {
	switch u := under(t).(type) {
	case *types.Array:
		base := st.allocTop
		st.allocTop = AddNW(st.allocTop, ConstI(u.Len(), Ref))
		p := PtrV{Kind: pArr, Key: "elem:" + typeName(u.Elem()), Addr: base, T: t, FirstClass: true}
		e.ctx.assume(Le(st.allocTop, ConstI(staticBase, Ref)))
		e.fillZero(u.Elem(), "elem:"+typeName(u.Elem()), base, ConstI(u.Len(), Ref), st)
		return p
	}
	// object references are spaced out so that the (uninterpreted) addresses of embedded
	// structs of fresh objects have room between them
	r := st.refTop
	st.refTop = AddNW(st.refTop, ConstI(refStride, Ref))
	e.ctx.assume(Lt(ConstI(0, Ref), r))
	e.ctx.assume(Eq(App("fatag", Ref, r), ConstI(0, Ref))) // a separately allocated object is not an embedded one
	p := e.ptrFromTerm(r, t)
	e.storeAt(st, p, e.zeroValue(t))
	return p
}

func (e *Exec) makeSlice(x *ssa.MakeSlice, st *State) Value {
	l := e.scalarOf(e.val(x.Len))
	c := e.scalarOf(e.val(x.Cap))
	l = Conv(l, I64)
	c = Conv(c, I64)
	e.safe("makeslice", st, And(Le(ConstI(0, I64), l), Le(l, c), Le(c, ConstI(maxAddr, I64))), x.Pos())
	elem := under(x.Type()).(*types.Slice).Elem()
	return e.allocSlice(elem, l, c, st, true)
}

// allocSlice reserves [allocTop, allocTop+cap) and zero-fills it if zero is set.
func (e *Exec) allocSlice(elem types.Type, l, c *Term, st *State, zero bool) SliceV {
	base := st.allocTop
	st.allocTop = AddNW(st.allocTop, AddNW(c, ConstI(1, Ref))) // one spare address keeps empty slices apart
	e.ctx.assume(Le(st.allocTop, ConstI(staticBase, Ref)))
	sv := SliceV{Ptr: base, Len: l, Cap: c, Elem: elem}
	if zero {
		e.fillZero(elem, "elem:"+typeName(elem), base, c, st)
	}
	return sv
}

// fillZero sets [base, base+n) of every leaf family of elem to zero.
func (e *Exec) fillZero(elem types.Type, key string, base, n *Term, st *State) {
	for _, lf := range e.leafFamilies(elem, key) {
		m := e.ctx.family(st, lf.key, lf.sort)
		var z *Term
		if lf.sort.Kind == SBool {
			z = False
		} else {
			z = ConstI(0, lf.sort)
		}
		st.mems[lf.key] = m.Fill(base, AddNW(base, n), z)
	}
}

type leafFam struct {
	key  string
	sort *Sort
}

// leafFamilies lists the Mem families that make up one element of type t under prefix key.
func (e *Exec) leafFamilies(t types.Type, key string) []leafFam {
	switch u := under(t).(type) {
	case *types.Struct:
		var out []leafFam
		for i := 0; i < u.NumFields(); i++ {
			out = append(out, e.leafFamilies(u.Field(i).Type(), key+"."+u.Field(i).Name())...)
		}
		return out
	case *types.Slice:
		return []leafFam{{key + "#ptr", Ref}, {key + "#len", I64}, {key + "#cap", I64}}
	case *types.Basic:
		if u.Info()&types.IsString != 0 {
			return []leafFam{{key + "#id", Ref}, {key + "#len", I64}}
		}
	case *types.Array:
		e.errorf("array inside element")
	}
	s, ok := leafSort(t)
	if !ok {
		e.errorf("leaf families of %s", t)
	}
	return []leafFam{{key, s}}
}

func (e *Exec) indexAddr(x *ssa.IndexAddr, st *State) Value {
	idx := Conv(e.scalarOf(e.val(x.Index)), I64)
	switch b := e.val(x.X).(type) {
	case SliceV:
		e.safe("index", st, And(Le(ConstI(0, I64), idx), Lt(idx, b.Len)), x.Pos())
		return e.elemPtr("elem:"+typeName(b.Elem), AddNW(b.Ptr, idx), b.Elem)
	case PtrV:
		au, ok := under(b.T).(*types.Array)
		if !ok || b.Kind != pArr {
			e.errorf("IndexAddr on pointer to %s", b.T)
		}
		e.safe("nil", st, Ne(b.Addr, ConstI(0, Ref)), x.Pos())
		e.safe("index", st, And(Le(ConstI(0, I64), idx), Lt(idx, ConstI(au.Len(), I64))), x.Pos())
		return e.elemPtr(b.Key, AddNW(b.Addr, idx), au.Elem())
	}
	e.errorf("IndexAddr on %T", e.val(x.X))
	return nil
}

func (e *Exec) indexValue(x *ssa.Index, st *State) Value {
	idx := Conv(e.scalarOf(e.val(x.Index)), I64)
	switch b := e.val(x.X).(type) {
	case ArrayV:
		e.safe("index", st, And(Le(ConstI(0, I64), idx), Lt(idx, ConstI(int64(len(b.Elems)), I64))), x.Pos())
		if len(b.Elems) == 0 {
			return e.zeroValue(x.Type())
		}
		v := b.Elems[len(b.Elems)-1]
		for i := len(b.Elems) - 2; i >= 0; i-- {
			v = e.iteValue(Eq(idx, ConstI(int64(i), I64)), b.Elems[i], v)
		}
		return v
	case StringV:
		e.safe("index", st, And(Le(ConstI(0, I64), idx), Lt(idx, b.Len)), x.Pos())
		return Scalar{App("strbyte", U8, b.ID, idx)}
	}
	e.errorf("Index on %T", e.val(x.X))
	return nil
}

func (e *Exec) sliceOp(x *ssa.Slice, st *State) Value {
	var lo, hi, mx *Term
	if x.Low != nil {
		lo = Conv(e.scalarOf(e.val(x.Low)), I64)
	}
	if x.High != nil {
		hi = Conv(e.scalarOf(e.val(x.High)), I64)
	}
	if x.Max != nil {
		mx = Conv(e.scalarOf(e.val(x.Max)), I64)
	}
	z := ConstI(0, I64)
	switch b := e.val(x.X).(type) {
	case SliceV:
		if lo == nil {
			lo = z
		}
		if hi == nil {
			hi = b.Len
		}
		capv := b.Cap
		var ok *Term
		if mx != nil {
			ok = And(Le(z, lo), Le(lo, hi), Le(hi, mx), Le(mx, b.Cap))
			capv = mx
		} else {
			ok = And(Le(z, lo), Le(lo, hi), Le(hi, b.Cap))
		}
		e.safe("slice", st, ok, x.Pos())
		return SliceV{Ptr: AddNW(b.Ptr, lo), Len: Sub(hi, lo), Cap: Sub(capv, lo), Elem: b.Elem}
	case StringV:
		if lo == nil {
			lo = z
		}
		if hi == nil {
			hi = b.Len
		}
		e.safe("slice", st, And(Le(z, lo), Le(lo, hi), Le(hi, b.Len)), x.Pos())
		return StringV{ID: App("substr", Ref, b.ID, lo, hi), Len: Sub(hi, lo)}
	case PtrV:
		au, ok := under(b.T).(*types.Array)
		if !ok || b.Kind != pArr {
			e.errorf("Slice of pointer to %s", b.T)
		}
		n := ConstI(au.Len(), I64)
		if lo == nil {
			lo = z
		}
		if hi == nil {
			hi = n
		}
		capv := n
		var okc *Term
		if mx != nil {
			okc = And(Le(z, lo), Le(lo, hi), Le(hi, mx), Le(mx, n))
			capv = mx
		} else {
			okc = And(Le(z, lo), Le(lo, hi), Le(hi, n))
		}
		e.safe("nil", st, Ne(b.Addr, ConstI(0, Ref)), x.Pos())
		e.safe("slice", st, okc, x.Pos())
		return SliceV{Ptr: AddNW(b.Addr, lo), Len: Sub(hi, lo), Cap: Sub(capv, lo), Elem: au.Elem()}
	}
	e.errorf("Slice of %T", e.val(x.X))
	return nil
}

func (e *Exec) unop(x *ssa.UnOp, st *State) Value {
	v := e.val(x.X)
	switch x.Op {
	case token.MUL:
		// captured variables that are never reassigned: their cell cannot change, whatever
		// code runs in between (only the capturing closures can reach it)
		if e.cellIsFinal(x.X) {
			if cv, ok := e.finalCells[x.X]; ok {
				return cv
			}
		}
		p, ok := v.(PtrV)
		if !ok {
			e.errorf("load through %T", v)
		}
		if e.cellIsFinal(x.X) {
			e.safe("nil", st, Ne(p.Addr, ConstI(0, Ref)), x.Pos())
			cv := e.loadAt(st, p)
			e.finalCells[x.X] = cv
			return cv
		}
		e.safe("nil", st, Ne(p.Addr, ConstI(0, Ref)), x.Pos())
		e.guardedAccess(p, st, x.Pos(), "read")
		return e.loadAt(st, p)
	case token.NOT:
		return Scalar{Not(e.scalarOf(v))}
	case token.SUB:
		return Scalar{Neg(e.scalarOf(v))}
	case token.XOR:
		return Scalar{BitNot(e.scalarOf(v))}
	}
	e.errorf("unary operator %s", x.Op)
	return nil
}

func (e *Exec) binop(op token.Token, a, b Value, opndT types.Type, st *State, pos token.Pos) Value {
	switch op {
	case token.EQL, token.NEQ:
		eq := e.valuesEqual(a, b)
		if op == token.NEQ {
			eq = Not(eq)
		}
		return Scalar{eq}
	}
	if _, ok := a.(StringV); ok {
		switch op {
		case token.ADD:
			x, y := a.(StringV), b.(StringV)
			return StringV{ID: App("concat", Ref, x.ID, y.ID), Len: Add(x.Len, y.Len)}
		}
		return Scalar{Fresh("strcmp", BoolSort)}
	}
	x, y := e.scalarOf(a), e.scalarOf(b)
	if x.Sort.Kind == SBool {
		e.errorf("boolean binop %s", op)
	}
	if bt, ok := under(opndT).(*types.Basic); ok && bt.Info()&types.IsFloat != 0 {
		switch op {
		case token.LSS, token.LEQ, token.GTR, token.GEQ:
			return Scalar{Fresh("fcmp", BoolSort)}
		}
		return Scalar{Fresh("fop", Ref)}
	}
	switch op {
	case token.ADD:
		return Scalar{Add(x, y)}
	case token.SUB:
		return Scalar{Sub(x, y)}
	case token.MUL:
		return Scalar{Mul(x, y)}
	case token.QUO:
		e.safe("divzero", st, Ne(y, ConstI(0, y.Sort)), pos)
		return Scalar{Arith(ODiv, x, y)}
	case token.REM:
		e.safe("divzero", st, Ne(y, ConstI(0, y.Sort)), pos)
		return Scalar{Arith(ORem, x, y)}
	case token.AND:
		return Scalar{Arith(OBitAnd, x, y)}
	case token.OR:
		return Scalar{Arith(OBitOr, x, y)}
	case token.XOR:
		return Scalar{Arith(OBitXor, x, y)}
	case token.AND_NOT:
		return Scalar{Arith(OBitAndNot, x, y)}
	case token.SHL:
		if y.Sort.Signed {
			e.safe("negshift", st, Le(ConstI(0, y.Sort), y), pos)
		}
		return Scalar{Shift(OShl, x, y)}
	case token.SHR:
		if y.Sort.Signed {
			e.safe("negshift", st, Le(ConstI(0, y.Sort), y), pos)
		}
		return Scalar{Shift(OShr, x, y)}
	case token.LSS:
		return Scalar{Lt(x, y)}
	case token.LEQ:
		return Scalar{Le(x, y)}
	case token.GTR:
		return Scalar{Lt(y, x)}
	case token.GEQ:
		return Scalar{Le(y, x)}
	}
	e.errorf("binary operator %s", op)
	return nil
}

func (e *Exec) valuesEqual(a, b Value) *Term {
	switch x := a.(type) {
	case StringV:
		y := b.(StringV)
		return And(Eq(x.ID, y.ID), Eq(x.Len, y.Len))
	case StructV:
		y, ok := b.(StructV)
		if !ok {
			e.errorf("comparison of a struct with %T %v (struct has %d fields)", b, b, len(x.Fields))
		}
		r := True
		for i := range x.Fields {
			r = And(r, e.valuesEqual(x.Fields[i], y.Fields[i]))
		}
		return r
	case ArrayV:
		y := b.(ArrayV)
		r := True
		for i := range x.Elems {
			r = And(r, e.valuesEqual(x.Elems[i], y.Elems[i]))
		}
		return r
	case SliceV:
		// only comparison with nil is legal
		return Eq(x.Ptr, ConstI(0, Ref))
	}
	if s, ok := b.(SliceV); ok {
		return Eq(s.Ptr, ConstI(0, Ref))
	}
	x, y := e.scalarOf(a), e.scalarOf(b)
	if x.Sort != y.Sort {
		e.errorf("comparison of a %s with a %s value: convert one side explicitly", x.Sort, y.Sort)
	}
	return Eq(x, y)
}

func (e *Exec) convert(v Value, from, to types.Type, st *State) Value {
	fu, tu := under(from), under(to)
	if fb, ok := fu.(*types.Basic); ok {
		if tb, ok := tu.(*types.Basic); ok {
			if fb.Info()&types.IsInteger != 0 && tb.Info()&types.IsInteger != 0 {
				return Scalar{Conv(e.scalarOf(v), sortOfBasic(tb))}
			}
			if tb.Kind() == types.UnsafePointer || fb.Kind() == types.UnsafePointer {
				if s, ok := v.(Scalar); ok {
					return Scalar{Conv(s.T, sortOfBasic(tb))}
				}
			}
			if tb.Info()&types.IsString != 0 {
				return e.freshValue("strconv", to, st)
			}
			// int<->float and the like: opaque
			return e.freshValue("conv", to, st)
		}
	}
	// pointer -> unsafe.Pointer, unsafe.Pointer -> pointer
	if tb, ok := tu.(*types.Basic); ok && tb.Kind() == types.UnsafePointer {
		if p, ok := v.(PtrV); ok && p.FirstClass {
			return Scalar{p.Addr}
		}
		return Scalar{Fresh("unsafeptr", Ref)}
	}
	if fb, ok := fu.(*types.Basic); ok && fb.Kind() == types.UnsafePointer {
		if pt, ok := tu.(*types.Pointer); ok {
			return e.ptrFromTerm(e.scalarOf(v), pt.Elem())
		}
	}
	// string <-> []byte: contents not modelled
	if _, ok := tu.(*types.Slice); ok {
		if sv, ok := v.(StringV); ok {
			s := e.allocSlice(types.Typ[types.Byte], sv.Len, sv.Len, st, false)
			return s
		}
	}
	if tb, ok := tu.(*types.Basic); ok && tb.Info()&types.IsString != 0 {
		if sl, ok := v.(SliceV); ok {
			return StringV{ID: Fresh("str", Ref), Len: sl.Len}
		}
	}
	e.errorf("conversion %s -> %s", from, to)
	return nil
}

func (e *Exec) typeAssert(x *ssa.TypeAssert, st *State) Value {
	iv, _ := e.val(x.X).(IfaceV)
	if iv.Dyn != nil && types.Identical(iv.DynT, x.AssertedType) {
		if x.CommaOk {
			return TupleV{iv.Dyn, Scalar{True}}
		}
		return iv.Dyn
	}
	if _, isIface := under(x.AssertedType).(*types.Interface); isIface {
		// interface-to-interface: same identity
		if x.CommaOk {
			ok := Fresh("assert.ok", BoolSort)
			return TupleV{IfaceV{ID: Ite(ok, iv.ID, ConstI(0, Ref))}, Scalar{ok}}
		}
		e.safe("typeassert", st, Fresh("assert.ok", BoolSort), x.Pos())
		return IfaceV{ID: iv.ID}
	}
	v := e.freshValue("assert", x.AssertedType, st)
	if !x.CommaOk {
		if rfc := e.root().fc; rfc != nil {
			for _, pat := range rfc.AssumeAsserts {
				if strings.Contains(typeName(x.AssertedType), pat) {
					e.ctx.assumes["type assertion to "+typeName(x.AssertedType)+" in "+shortKey(e.topName)+" succeeds"]++
					if pv, isPtr := v.(PtrV); isPtr {
						e.ctx.assume(Lt(ConstI(0, Ref), pv.Addr))
					}
					return v
				}
			}
		}
	}
	if x.CommaOk {
		ok := Fresh("assert.ok", BoolSort)
		if pv, isPtr := v.(PtrV); isPtr {
			// a successful assertion to a pointer type yields the (non-nil interface's) pointer;
			// a typed nil pointer inside an interface is not modelled
			e.ctx.assume(Imp(ok, Lt(ConstI(0, Ref), pv.Addr)))
		}
		return TupleV{v, Scalar{ok}}
	}
	e.safe("typeassert", st, Fresh("assert.ok", BoolSort), x.Pos())
	return v
}

var _ = fmt.Sprintf

var finalMemo = map[ssa.Value]bool{}

// cellIsFinal: v is the cell of a local variable (an Alloc, or a closure's free variable bound
// to one) that is stored to exactly once (its initialisation).
func (e *Exec) cellIsFinal(v ssa.Value) bool {
	if r, ok := finalMemo[v]; ok {
		return r
	}
	root := v
	for depth := 0; depth < 8; depth++ {
		fv, ok := root.(*ssa.FreeVar)
		if !ok {
			break
		}
		fn := fv.Parent()
		parent := fn.Parent()
		if parent == nil {
			finalMemo[v] = false
			return false
		}
		idx := -1
		for i, f := range fn.FreeVars {
			if f == fv {
				idx = i
			}
		}
		var bound ssa.Value
		for _, b := range parent.Blocks {
			for _, ins := range b.Instrs {
				if mc, ok := ins.(*ssa.MakeClosure); ok && mc.Fn == fn && idx < len(mc.Bindings) {
					bound = mc.Bindings[idx]
				}
			}
		}
		if bound == nil {
			finalMemo[v] = false
			return false
		}
		root = bound
	}
	al, ok := root.(*ssa.Alloc)
	if !ok {
		finalMemo[v] = false
		return false
	}
	stores := countStores(al, 0)
	res := stores <= 1
	finalMemo[v] = res
	return res
}

// countStores counts stores to the cell through the value and through closures capturing it.
func countStores(v ssa.Value, depth int) int {
	if depth > 8 || v.Referrers() == nil {
		return 99
	}
	n := 0
	for _, ref := range *v.Referrers() {
		switch x := ref.(type) {
		case *ssa.Store:
			if x.Addr == v {
				n++
			} else {
				return 99 // the cell's address itself escapes into memory
			}
		case *ssa.MakeClosure:
			fn := x.Fn.(*ssa.Function)
			for i, b := range x.Bindings {
				if b == v && i < len(fn.FreeVars) {
					n += countStores(fn.FreeVars[i], depth+1)
				}
			}
		case *ssa.UnOp, *ssa.DebugRef:
		default:
			return 99 // passed somewhere else: be conservative
		}
	}
	return n
}
