#!/bin/bash
# dev helper: unsat core of the hypotheses at a return of a function (pattern = obligation file glob part)
# usage: coredbg.sh <function pattern> <obligation name fragment>
cd /verif; rm -rf /var/tmp/sonicvc-*; bin/sonicvc verify --keep "$1" >/dev/null 2>&1
d=$(ls -dt /var/tmp/sonicvc-* | head -1); f=$(ls $d/*$2*.smt2 | grep -v small | grep -v full | head -1)
python3 - "$f" <<'PY'
import sys,re,subprocess
src=open(sys.argv[1]).read().split('\n')
out=['(set-option :produce-unsat-cores true)']
n=0; names={}
asserts=[l for l in src if l.startswith('(assert ')]
last=asserts[-1] if asserts else None
for l in src:
    if l.startswith('(assert ') and not l.startswith('(assert (and (<= '):
        if l is last: continue   # drop the negated goal: core of the hypotheses alone
        n+=1; nm='a%d'%n; names[nm]=l
        out.append('(assert (! %s :named %s))'%(l[len('(assert '):-1],nm))
    elif l.startswith('(get-value') or l.startswith('(set-option :produce-models'):
        continue
    else: out.append(l)
out.append('(get-unsat-core)')
open('/tmp/core.smt2','w').write('\n'.join(out))
r=subprocess.run(['z3-new','-T:60','/tmp/core.smt2'],capture_output=True,text=True).stdout
print(r[:200])
lines=r.split('\n')
core=re.findall(r'a\d+',lines[1]) if len(lines)>1 else []
defs={}
for l in src:
    m=re.match(r'\(define-fun (tm_\d+) \(\) \S+ (.*)\)$',l)
    if m: defs[m.group(1)]=m.group(2)
def expand(s,depth=0):
    if depth>9: return s
    return re.sub(r'tm_\d+',lambda m: '('+expand(defs.get(m.group(0),m.group(0)),depth+1)+')' if m.group(0) in defs else m.group(0),s)
for c in core:
    print(c, expand(names[c])[:6000]); print()
PY
