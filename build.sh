#!/bin/bash
# Build bin/sonicvc offline from the vendored module.
set -e
cd "$(dirname "$0")/vc"
export GOPROXY=off GOSUMDB=off GOTOOLCHAIN=local GOFLAGS=-mod=vendor
export PATH=/opt/veriftools/go1.26.8/bin:$PATH
mkdir -p ../bin
go build -o ../bin/sonicvc .
