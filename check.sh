#!/bin/bash
# usage: check.sh <property> [quick|thorough]   (cwd = /verif)
# Builds the verifier if needed and decides the property on /repo's current working tree.
set -u
cd "$(dirname "$0")"
export GOPROXY=off GOSUMDB=off GOTOOLCHAIN=local GOFLAGS=-mod=vendor
export PATH=/opt/veriftools/go1.26.8/bin:$PATH
PROP="$1"; TIER="${2:-${VERIF_TIER:-quick}}"
if ! ./build.sh >/dev/null 2>build.err; then
  echo "ERROR building sonicvc:"; cat build.err; exit 2
fi
if [ "$TIER" = "thorough" ]; then
  exec ./thorough.sh "$PROP"
fi
exec bin/sonicvc check --property "$PROP" --tier "$TIER"
