#!/bin/bash
# Copy the contract files (comment-only, build tag verif) from /verif/contracts into /repo,
# keeping the package directory layout. The mirror in /verif/contracts is the fallback the
# checker uses when a file is missing from /repo.
set -e
cd "$(dirname "$0")/contracts"
find . -name 'contracts*_verif.go' | while read f; do
  mkdir -p "/repo/$(dirname "$f")"
  cp "$f" "/repo/$f"
done
