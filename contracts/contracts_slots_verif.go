//go:build verif

package sonic

// Contracts for OffsetSlot, SlotOffsetter, sequencedSlots, SlotSequencer (property C20).
// util.P is the ghost prefix-sum map of the offsetter's Fenwick tree: P[k] = total length
// discarded at virtual index <= k.

//@ func OffsetSlot
//@   prop C20
//@   ensures [clamp] result.Length == slot.Length &&
//@           result.Index == slot.Index - min(max(offset, 0), slot.Index)
//@   modifies nothing

//@ pred offInv(s *SlotOffsetter) = s.tree != nil && util.fenInv(s.tree)

//@ func NewSlotOffsetter
//@   prop C20
//@   requires 0 <= maxBytes && maxBytes <= 1<<46
//@   ensures [inv] result != nil && offInv(result) && len(result.tree.data) == maxBytes
//@   ensures [zero] forall k :: util.P[k] == 0
//@   modifies util.P

//@ func (*SlotOffsetter).Add
//@   prop C20
//@   requires offInv(s)
//@   let total = util.P[len(s.tree.data) - 1]
//@   ensures [fits] slot.Index + total < len(s.tree.data) ==> result1 == nil && result0.Index == slot.Index + total && result0.Length == slot.Length
//@   ensures [full] slot.Index + total >= len(s.tree.data) ==> result1 == ErrNoSpaceLeftForSlot && result0.Index == 0 && result0.Length == 0
//@   modifies nothing

//@ func (*SlotOffsetter).Offset
//@   prop C20
//@   requires offInv(s) && 0 <= slot.Index && slot.Index < len(s.tree.data)
//@   ensures [inv] offInv(s) && len(s.tree.data) == old(len(s.tree.data))
//@   ensures [slot] result.Length == slot.Length && result.Index == slot.Index - min(max(old(util.P[slot.Index]), 0), slot.Index)
//@   ensures [record] forall k :: util.P[k] == old(util.P[k]) + ((k >= slot.Index) ? slot.Length : 0)
//@   modifies util.P, mem(s.tree.data)

//@ func (*SlotOffsetter).Reset
//@   prop C20
//@   requires offInv(s)
//@   ensures [inv] offInv(s) && len(s.tree.data) == old(len(s.tree.data))
//@   ensures [zero] forall k :: util.P[k] == 0
//@   modifies util.P, mem(s.tree.data)

// --- sequencedSlots as a finite map  seq -> Slot -------------------------------------------
// Ghost view: IN[k]==1 iff a slot is parked under sequence number k; IDX[k], LEN[k] are the
// slot stored under k; POS[k] is its position in the sorted array (internal).
//@ ghostmap IN IDX LEN POS

//@ pred ssInv(s *sequencedSlots) =
//@   0 <= len(s.slots) && len(s.slots) <= 1<<40 &&
//@   (forall i, j :: 0 <= i && i < j && j < len(s.slots) ==> s.slots[i].seq < s.slots[j].seq) &&
//@   (forall i :: 0 <= i && i < len(s.slots) ==> IN[s.slots[i].seq] == 1 && POS[s.slots[i].seq] == i &&
//@                IDX[s.slots[i].seq] == s.slots[i].Index && LEN[s.slots[i].seq] == s.slots[i].Length) &&
//@   (forall k :: IN[k] == 1 ==> 0 <= POS[k] && POS[k] < len(s.slots) && s.slots[POS[k]].seq == k)

//@ func ext:sort.Search
//@   trusted
//@   ensures 0 <= result && result <= n
//@   modifies nothing

//@ func (*sequencedSlots).Size
//@   pure

//@ func (*sequencedSlots).Push
//@   prop C20
//@   requires ssInv(s) && s.maxSlots <= 1<<40
//@   assume after call sort.Search: (forall i :: 0 <= i && i < result ==> s.slots[i].seq < seq) &&
//@          (forall i :: result <= i && i < len(s.slots) ==> s.slots[i].seq >= seq)
//@   ghost IN[k]  = (k == seq && result0) ? 1 : IN[k]
//@   ghost IDX[k] = (k == seq && result0) ? slot.Index : IDX[k]
//@   ghost LEN[k] = (k == seq && result0) ? slot.Length : LEN[k]
//@   ghost POS[k] = result0 ? ((k == seq) ? ix : ((IN[k] == 1 && POS[k] >= ix) ? POS[k] + 1 : POS[k])) : POS[k]
//@   ensures [inv] ssInv(s)
//@   ensures [dup] old(IN[seq]) == 1 ==> !result0 && result1 == nil
//@   ensures [full] old(IN[seq]) != 1 && old(len(s.slots)) >= s.maxSlots ==> !result0 && result1 == ErrNoSpaceLeftForSlot
//@   ensures [ok] old(IN[seq]) != 1 && old(len(s.slots)) < s.maxSlots ==> result0 && result1 == nil
//@   ensures [unchanged] !result0 ==> len(s.slots) == old(len(s.slots)) &&
//@           (forall k :: IN[k] == old(IN[k]) && IDX[k] == old(IDX[k]) && LEN[k] == old(LEN[k]))
//@   ensures [stored] result0 ==> len(s.slots) == old(len(s.slots)) + 1 &&
//@           IN[seq] == 1 && IDX[seq] == slot.Index && LEN[seq] == slot.Length &&
//@           (forall k :: k != seq ==> IN[k] == old(IN[k]) && IDX[k] == old(IDX[k]) && LEN[k] == old(LEN[k]))
//@   modifies IN, IDX, LEN, POS, s.slots, memcap(s.slots)

//@ func (*sequencedSlots).Pop
//@   prop C20
//@   requires ssInv(s)
//@   assume after call sort.Search: (forall i :: 0 <= i && i < result ==> s.slots[i].seq < seq) &&
//@          (forall i :: result <= i && i < len(s.slots) ==> s.slots[i].seq >= seq)
//@   ghost IN[k]  = (k == seq && result1) ? 0 : IN[k]
//@   ghost POS[k] = result1 ? ((IN[k] == 1 && POS[k] > ix) ? POS[k] - 1 : POS[k]) : POS[k]
//@   ensures [inv] ssInv(s)
//@   ensures [hit] old(IN[seq]) == 1 ==> result1 && result0.Index == old(IDX[seq]) && result0.Length == old(LEN[seq]) &&
//@           len(s.slots) == old(len(s.slots)) - 1 && IN[seq] == 0
//@   ensures [miss] old(IN[seq]) != 1 ==> !result1 && result0.Index == 0 && result0.Length == 0 && len(s.slots) == old(len(s.slots))
//@   ensures [others] forall k :: k != seq ==> IN[k] == old(IN[k]) && IDX[k] == old(IDX[k]) && LEN[k] == old(LEN[k])
//@   ensures [miss-in] old(IN[seq]) != 1 ==> IN[seq] == old(IN[seq])
//@   modifies IN, POS, s.slots, memcap(s.slots)

//@ func (*sequencedSlots).Reset
//@   prop C20
//@   requires ssInv(s)
//@   ghost IN[k] = 0
//@   ensures [inv] ssInv(s) && len(s.slots) == 0
//@   ensures [empty] forall k :: IN[k] == 0
//@   modifies IN, s.slots

//@ func newSequencedSlots
//@   prop C20
//@   requires 0 <= maxSlots && maxSlots <= 1<<40
//@   ghost IN[k] = 0
//@   ensures [inv] result != nil && ssInv(result) && len(result.slots) == 0 && result.maxSlots == maxSlots
//@   ensures [empty] forall k :: IN[k] == 0
//@   modifies IN

// --- SlotSequencer -------------------------------------------------------------------------

//@ pred sqInv(s *SlotSequencer) =
//@   s.container != nil && s.offsetter != nil && ssInv(s.container) && offInv(s.offsetter) &&
//@   s.container.maxSlots <= 1<<40 &&
//@   0 <= util.P[len(s.offsetter.tree.data) - 1] && util.P[len(s.offsetter.tree.data) - 1] <= 1<<62 &&
//@   (forall k :: IN[k] == 1 ==> 0 <= IDX[k] && IDX[k] < len(s.offsetter.tree.data) && 0 <= LEN[k] && LEN[k] <= 1<<46)

//@ func (*SlotSequencer).Size
//@   requires s.container != nil
//@   pure
//@ func (*SlotSequencer).Bytes
//@   pure

//@ func NewSlotSequencer
//@   prop C20
//@   requires 0 <= maxSlots && maxSlots <= 1<<40 && 0 <= maxBytes && maxBytes <= 1<<46
//@   ensures [inv] result != nil && sqInv(result) && result.bytes == 0 && len(result.container.slots) == 0 && result.maxBytes == maxBytes
//@   ensures [empty] (forall k :: IN[k] == 0) && (forall k :: util.P[k] == 0)
//@   modifies IN, util.P

//@ func (*SlotSequencer).Push
//@   prop C20
//@   requires sqInv(s) && 0 <= slot.Index && slot.Index <= 1<<47 && 0 <= slot.Length && slot.Length <= 1<<46
//@   let total = util.P[len(s.offsetter.tree.data) - 1]
//@   ensures [inv] sqInv(s)
//@   ensures [parked] ok ==> err == nil && s.bytes == old(s.bytes) + slot.Length &&
//@           len(s.container.slots) == old(len(s.container.slots)) + 1 &&
//@           IN[seq] == 1 && IDX[seq] == slot.Index + total && LEN[seq] == slot.Length &&
//@           (forall k :: k != seq ==> IN[k] == old(IN[k]) && IDX[k] == old(IDX[k]) && LEN[k] == old(LEN[k]))
//@   ensures [refused] !ok ==> s.bytes == old(s.bytes) && len(s.container.slots) == old(len(s.container.slots)) &&
//@           (forall k :: IN[k] == old(IN[k]) && IDX[k] == old(IDX[k]) && LEN[k] == old(LEN[k]))
//@   ensures [dup] old(IN[seq]) == 1 ==> !ok
//@   ensures [bytes-cap] old(s.bytes) + slot.Length > s.maxBytes ==> !ok && err == ErrNoSpaceLeftForSlot
//@   // nothing else is refused: a new sequence number that fits the byte budget, the slot budget and the offset table is parked
//@   ensures [accepted] old(IN[seq]) != 1 && old(s.bytes) + slot.Length <= s.maxBytes && old(len(s.container.slots)) < s.container.maxSlots &&
//@           slot.Index + total < len(s.offsetter.tree.data) ==> ok
//@   ensures [slots-cap] old(IN[seq]) != 1 && old(len(s.container.slots)) >= s.container.maxSlots ==> !ok && err != nil
//@   ensures [offsets-kept] forall k :: util.P[k] == old(util.P[k])

//@ func (*SlotSequencer).Pop
//@   prop C20
//@   requires sqInv(s)
//@   // machine arithmetic: the cumulative number of discarded bytes stays below 2^62
//@   assume after call Offset: util.P[len(s.offsetter.tree.data) - 1] <= 1<<62
//@   ensures [inv] sqInv(s)
//@   ensures [hit] old(IN[seq]) == 1 ==> result1 && result0.Length == old(LEN[seq]) &&
//@           result0.Index == old(IDX[seq]) - min(max(old(util.P[IDX[seq]]), 0), old(IDX[seq])) &&
//@           s.bytes == old(s.bytes) - old(LEN[seq]) && IN[seq] == 0 &&
//@           len(s.container.slots) == old(len(s.container.slots)) - 1
//@   ensures [miss] old(IN[seq]) != 1 ==> !result1 && s.bytes == old(s.bytes) && IN[seq] == old(IN[seq]) &&
//@           len(s.container.slots) == old(len(s.container.slots)) && (forall k :: util.P[k] == old(util.P[k]))
//@   ensures [others] forall k :: k != seq ==> IN[k] == old(IN[k]) && IDX[k] == old(IDX[k]) && LEN[k] == old(LEN[k])
//@   ensures [record] old(IN[seq]) == 1 && len(s.container.slots) > 0 ==>
//@           (forall k :: util.P[k] == old(util.P[k]) + ((k >= old(IDX[seq])) ? old(LEN[seq]) : 0))
//@   ensures [drained] old(IN[seq]) == 1 && len(s.container.slots) == 0 ==> (forall k :: util.P[k] == 0)

//@ func (*SlotSequencer).Reset
//@   prop C20
//@   requires sqInv(s)
//@   ensures [inv] sqInv(s) && s.bytes == 0 && len(s.container.slots) == 0
//@   ensures [empty] (forall k :: IN[k] == 0) && (forall k :: util.P[k] == 0)
