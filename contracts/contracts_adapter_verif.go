//go:build verif

package sonic

// Contracts for AsyncAdapter (properties C01, C02, C13, C17).

//@ immutable [C01,C02] AsyncAdapter.ioc AsyncAdapter.rw asyncAdapterReadReactor.adapter asyncAdapterWriteReactor.adapter constructors NewAsyncAdapter

//@ pred aInv(a *AsyncAdapter) =
//@   a.ioc != nil && a.ioc.poller != nil && internal.pInv(a.ioc.poller) && a.rw != nil &&
//@   a.readReactor.adapter == a && a.writeReactor.adapter == a && 0 <= a.slot.Fd

//@ pred aArmedR(a *AsyncAdapter) = internal.armed(&a.slot, internal.PollerReadEvent)
//@ pred aArmedW(a *AsyncAdapter) = internal.armed(&a.slot, internal.PollerWriteEvent)

//@ func fnparam:(*AsyncAdapter).*.cb
//@   trusted
//@   ensures internal.pInv(a.ioc.poller) && a.ioc.Dispatched == old(a.ioc.Dispatched)
//@ func fnparam:(*asyncAdapterReadReactor).onRead.cb
//@   trusted
//@   ensures internal.pInv(r.adapter.ioc.poller)
//@ func fnparam:(*asyncAdapterWriteReactor).onWrite.cb
//@   trusted
//@   ensures internal.pInv(r.adapter.ioc.poller)

//@ func (*AsyncAdapter).Closed
//@   pure

//@ func (*AsyncAdapter).scheduleRead
//@   prop C01, C02, C03
//@   requires aInv(a) && cb != nil && !aArmedR(a)
//@   consumes cb unless aArmedR(a)
//@   ensures [armed] invoked(cb) == 0 ==> a.readReactor.readSoFar == readBytes && a.slot.Handlers[0] == a.readReactor.onRead &&
//@           a.ioc.poller.pending == old(a.ioc.poller.pending) + 1
//@   ensures [write-side] invoked(cb) == 0 ==> aArmedW(a) == old(aArmedW(a))
//@   ensures [reactor-kept] invoked(cb) == 0 ==> a.readReactor.b == old(a.readReactor.b) && a.readReactor.readAll == old(a.readReactor.readAll) &&
//@           a.readReactor.cb == old(a.readReactor.cb)

//@ func (*AsyncAdapter).asyncReadNow
//@   prop C01, C02
//@   requires aInv(a) && cb != nil && !aArmedR(a) && 0 <= readBytes && readBytes <= len(b)
//@   requires a.readReactor.b == b && a.readReactor.readAll == readAll
//@   assert call io.Reader.Read: alias(arg1, b[readBytes:])
//@   assert call cb: old(readBytes) <= arg1 && arg1 <= len(b) && (arg0 == nil && readAll ==> arg1 == len(b))
//@   remember after call io.Reader.Read: moved = result1 == nil
//@   remember after call io.Reader.Read: kn := result0
//@   assert call cb: [C02 exact-count] arg1 == old(readBytes) + kn
//@   assert call cb: [C02 no-swallowed-error] arg0 == nil ==> moved
//@   consumes cb unless aArmedR(a)
//@   ensures [armed] invoked(cb) == 0 ==> a.slot.Handlers[0] == a.readReactor.onRead &&
//@           readBytes <= a.readReactor.readSoFar && a.readReactor.readSoFar <= len(b) &&
//@           a.readReactor.b == b && a.readReactor.readAll == readAll
//@   ensures [work-left] invoked(cb) == 0 && old(readBytes) < len(b) ==> a.readReactor.readSoFar < len(b)
//@   ensures [progress-recorded] invoked(cb) == 0 ==> a.readReactor.readSoFar == old(readBytes) + kn

//@ func (*asyncAdapterReadReactor).onRead
//@   prop C01, C02
//@   requires r.adapter != nil && aInv(r.adapter) && &r.adapter.readReactor == r && !aArmedR(r.adapter)
//@   requires r.cb != nil && 0 <= r.readSoFar && r.readSoFar <= len(r.b)
//@   assert call cb: err != nil && arg0 == err && arg1 == old(r.readSoFar)
//@   consumes r.cb unless aArmedR(r.adapter)

//@ func (*AsyncAdapter).AsyncRead
//@   prop C01, C02
//@   requires aInv(a) && cb != nil && !aArmedR(a)
//@   consumes cb unless aArmedR(a)
//@   ensures [armed] invoked(cb) == 0 ==> a.readReactor.b == b && !a.readReactor.readAll && a.readReactor.cb == cb &&
//@           a.readReactor.readSoFar == 0 && a.slot.Handlers[0] == a.readReactor.onRead

//@ func (*AsyncAdapter).AsyncReadAll
//@   prop C01, C02
//@   requires aInv(a) && cb != nil && !aArmedR(a)
//@   consumes cb unless aArmedR(a)
//@   ensures [armed] invoked(cb) == 0 ==> a.readReactor.b == b && a.readReactor.readAll && a.readReactor.cb == cb &&
//@           a.readReactor.readSoFar == 0 && a.slot.Handlers[0] == a.readReactor.onRead

// --- write side ---

//@ func (*AsyncAdapter).scheduleWrite
//@   prop C01, C02, C03
//@   requires aInv(a) && cb != nil && !aArmedW(a)
//@   consumes cb unless aArmedW(a)
//@   ensures [armed] invoked(cb) == 0 ==> a.writeReactor.wroteSoFar == writtenBytes && a.slot.Handlers[1] == a.writeReactor.onWrite &&
//@           a.ioc.poller.pending == old(a.ioc.poller.pending) + 1
//@   ensures [read-side] invoked(cb) == 0 ==> aArmedR(a) == old(aArmedR(a))
//@   ensures [reactor-kept] invoked(cb) == 0 ==> a.writeReactor.b == old(a.writeReactor.b) && a.writeReactor.writeAll == old(a.writeReactor.writeAll) &&
//@           a.writeReactor.cb == old(a.writeReactor.cb)

//@ func (*AsyncAdapter).asyncWriteNow
//@   prop C01, C02
//@   requires aInv(a) && cb != nil && !aArmedW(a) && 0 <= writtenBytes && writtenBytes <= len(b)
//@   requires a.writeReactor.b == b && a.writeReactor.writeAll == writeAll
//@   assert call io.Writer.Write: alias(arg1, b[writtenBytes:])
//@   assert call cb: old(writtenBytes) <= arg1 && arg1 <= len(b) && (arg0 == nil && writeAll ==> arg1 == len(b))
//@   remember after call io.Writer.Write: moved = result1 == nil
//@   remember after call io.Writer.Write: kn := result0
//@   assert call cb: [C02 exact-count] arg1 == old(writtenBytes) + kn
//@   assert call cb: [C02 no-swallowed-error] arg0 == nil ==> moved
//@   consumes cb unless aArmedW(a)
//@   ensures [armed] invoked(cb) == 0 ==> a.slot.Handlers[1] == a.writeReactor.onWrite &&
//@           writtenBytes <= a.writeReactor.wroteSoFar && a.writeReactor.wroteSoFar <= len(b) &&
//@           a.writeReactor.b == b && a.writeReactor.writeAll == writeAll
//@   ensures [work-left] invoked(cb) == 0 && old(writtenBytes) < len(b) ==> a.writeReactor.wroteSoFar < len(b)
//@   ensures [progress-recorded] invoked(cb) == 0 ==> a.writeReactor.wroteSoFar == old(writtenBytes) + kn

//@ func (*asyncAdapterWriteReactor).onWrite
//@   prop C01, C02
//@   requires r.adapter != nil && aInv(r.adapter) && &r.adapter.writeReactor == r && !aArmedW(r.adapter)
//@   requires r.cb != nil && 0 <= r.wroteSoFar && r.wroteSoFar <= len(r.b)
//@   assert call cb: err != nil && arg0 == err && arg1 == old(r.wroteSoFar)
//@   consumes r.cb unless aArmedW(r.adapter)

//@ func (*AsyncAdapter).AsyncWrite
//@   prop C01, C02, C17
//@   // one write in flight per object: starting a second one would overwrite the record of the first
//@   requires aInv(a) && cb != nil && !aArmedW(a)
//@   consumes cb unless aArmedW(a)
//@   ensures [armed] invoked(cb) == 0 ==> a.writeReactor.b == b && !a.writeReactor.writeAll && a.writeReactor.cb == cb &&
//@           a.writeReactor.wroteSoFar == 0 && a.slot.Handlers[1] == a.writeReactor.onWrite

//@ func (*AsyncAdapter).AsyncWriteAll
//@   prop C01, C02, C17
//@   requires aInv(a) && cb != nil && !aArmedW(a)
//@   consumes cb unless aArmedW(a)
//@   ensures [armed] invoked(cb) == 0 ==> a.writeReactor.b == b && a.writeReactor.writeAll && a.writeReactor.cb == cb &&
//@           a.writeReactor.wroteSoFar == 0 && a.slot.Handlers[1] == a.writeReactor.onWrite

// --- cancel / close ---

//@ func (*AsyncAdapter).cancelReads
//@   prop C01
//@   requires aInv(a) && (aArmedR(a) ==> a.slot.Handlers[0] != nil)
//@   assert call Handlers: !aArmedR(a) && arg0 != nil
//@   consumes a.slot.Handlers[0] unless !old(aArmedR(a))
//@   ensures [idle] !old(aArmedR(a)) ==> invoked(old(a.slot.Handlers[0])) == 0

//@ func (*AsyncAdapter).cancelWrites
//@   prop C01
//@   requires aInv(a) && (aArmedW(a) ==> a.slot.Handlers[1] != nil)
//@   assert call Handlers: !aArmedW(a) && arg0 != nil
//@   consumes a.slot.Handlers[1] unless !old(aArmedW(a))
//@   ensures [idle] !old(aArmedW(a)) ==> invoked(old(a.slot.Handlers[1])) == 0

//@ func (*AsyncAdapter).Close
//@   prop C01, C03
//@   requires aInv(a)
//@   assert call syscall.Close: old(a.closed) == 0 && arg0 == a.slot.Fd
//@   ensures [already-closed] old(a.closed) != 0 ==> result != nil && (forall k :: FDOPEN[k] == old(FDOPEN[k]))
//@   ensures [disarmed] old(a.closed) == 0 ==> !aArmedR(a) && !aArmedW(a) && a.closed == 1
//@   ensures [accounting] old(a.closed) == 0 ==> a.ioc.poller.pending == old(a.ioc.poller.pending) - (old(aArmedR(a)) ? 1 : 0) - (old(aArmedW(a)) ? 1 : 0)
