//go:build verif

package internal

// Contracts for the epoll poller (properties C03, C01, C05).

//@ pred armed(s *Slot, flag PollerEvent) = s.Events & flag == flag

//@ func (*poller).Pending
//@   pure
//@ func (*EventFd).Fd
//@   pure
//@ func (*EventFd).Slot
//@   pure

//@ func (*Slot).Set
//@   prop C01
//@   requires 0 <= et && et < MaxEvent
//@   ensures [stored] s.Handlers[et] == h
//@   ensures [other] forall k :: 0 <= k && k < 2 && k != int(et) ==> s.Handlers[k] == old(s.Handlers[k])
//@   modifies s.Handlers

//@ func (*poller).setRW
//@   prop C03, C01
//@   arith bv
//@   requires slot != nil && (flag == PollerReadEvent || flag == PollerWriteEvent)
//@   // first interest of the slot: add; further ones: modify (the kernel registration follows the mask)
//@   assert call poller).add: [C03 kernel-in-step] old(slot.Events) == 0
//@   assert call poller).modify: [C03 kernel-in-step] old(slot.Events) != 0
//@   ensures [armed] result == nil ==> armed(slot, flag) && slot.Events == old(slot.Events) | flag
//@   ensures [count] result == nil ==> p.pending == old(p.pending) + (old(armed(slot, flag)) ? 0 : 1)
//@   // a registration that fails is not counted and leaves no interest behind
//@   ensures [failed] result != nil ==> slot.Events == old(slot.Events) && p.pending == old(p.pending)
//@   modifies p.pending, slot.Events

//@ func (*poller).SetRead
//@   prop C03, C01
//@   requires slot != nil
//@   ensures [armed] result == nil ==> armed(slot, PollerReadEvent) && slot.Events == old(slot.Events) | PollerReadEvent
//@   ensures [count] result == nil ==> p.pending == old(p.pending) + (old(armed(slot, PollerReadEvent)) ? 0 : 1)
//@   ensures [failed] result != nil ==> slot.Events == old(slot.Events) && p.pending == old(p.pending)
//@   modifies p.pending, slot.Events

//@ func (*poller).SetWrite
//@   prop C03, C01
//@   requires slot != nil
//@   ensures [armed] result == nil ==> armed(slot, PollerWriteEvent) && slot.Events == old(slot.Events) | PollerWriteEvent
//@   ensures [count] result == nil ==> p.pending == old(p.pending) + (old(armed(slot, PollerWriteEvent)) ? 0 : 1)
//@   ensures [failed] result != nil ==> slot.Events == old(slot.Events) && p.pending == old(p.pending)
//@   modifies p.pending, slot.Events

//@ func (*poller).DelRead
//@   prop C03, C01
//@   requires slot != nil
//@   // the kernel registration follows the mask: modified while an interest remains, removed with the last one
//@   assert call poller).modify: [C03 kernel-in-step] slot.Events != 0
//@   assert call poller).del: [C03 kernel-in-step] slot.Events == 0
//@   // whatever epoll_ctl answers, the interest is gone and no longer counted
//@   ensures [cleared] slot.Events == old(slot.Events) &^ PollerReadEvent
//@   ensures [count] p.pending == old(p.pending) - (old(armed(slot, PollerReadEvent)) ? 1 : 0)
//@   modifies p.pending, slot.Events

//@ func (*poller).DelWrite
//@   prop C03, C01
//@   requires slot != nil
//@   // the kernel registration follows the mask: modified while an interest remains, removed with the last one
//@   assert call poller).modify: [C03 kernel-in-step] slot.Events != 0
//@   assert call poller).del: [C03 kernel-in-step] slot.Events == 0
//@   ensures [cleared] slot.Events == old(slot.Events) &^ PollerWriteEvent
//@   ensures [count] p.pending == old(p.pending) - (old(armed(slot, PollerWriteEvent)) ? 1 : 0)
//@   ensures [quiet] !old(armed(slot, PollerWriteEvent)) ==> result == nil
//@   modifies p.pending, slot.Events

//@ func (*poller).Del
//@   prop C03, C01
//@   requires slot != nil
//@   ensures [cleared] slot.Events == old(slot.Events) &^ (PollerReadEvent | PollerWriteEvent)
//@   ensures [count] p.pending == old(p.pending) - (old(armed(slot, PollerReadEvent)) ? 1 : 0) - (old(armed(slot, PollerWriteEvent)) ? 1 : 0)
//@   ensures [quiet] !old(armed(slot, PollerWriteEvent)) ==> result == nil
//@   modifies p.pending, slot.Events

// Fields of the poller that are set once by NewPoller: their values survive call-outs to
// user handlers (checked statically: no other function stores to them).
//@ immutable [C01,C03,C05] poller.fd poller.waker poller.events EventFd.fd constructors NewPoller, NewEventFd

// posts and pending are shared with goroutines that call Post.
//@ guarded [C05] poller.posts by lck constructors NewPoller
//@ guarded [C05] poller.pending by lck constructors NewPoller
//@ guarded [C05] poller.spare by lck constructors NewPoller

//@ pred pInv(p *poller) = p.waker != nil && len(p.events) > 0 && len(p.posts) <= 1<<40 &&
//@   (forall j :: 0 <= j && j < len(p.posts) ==> p.posts[j] != nil) &&
//@   // the queue and the spare slice are two different arrays
//@   disjoint(p.posts[0:cap(p.posts)], p.spare[0:cap(p.spare)])

//@ func (*poller).Post
//@   prop C05, C03
//@   requires pInv(p) && handler != nil
//@   // the handler is queued (after every handler already queued) before the loop is woken
//@   assert call Write: len(p.posts) == old(len(p.posts)) + 1 && p.posts[old(len(p.posts))] == handler
//@   ensures [queued] len(p.posts) == old(len(p.posts)) + 1 && p.posts[old(len(p.posts))] == handler
//@   ensures [order] forall j :: 0 <= j && j < old(len(p.posts)) ==> p.posts[j] == old(p.posts[j])
//@   ensures [count] p.pending == old(p.pending) + 1

//@ func (*poller).Posted
//@   prop C05
//@   requires pInv(p)
//@   ensures [exact] result == len(p.posts)
//@   modifies nothing

// Rely of dispatch on posted handlers (user code): when a handler returns the poller is in a
// consistent state, and the queue dispatch swapped out (no longer referenced from the heap)
// has not been written.
//@ func fnparam:(*poller).dispatch.handler
//@   trusted
//@   ensures pInv(p)
//@   ensures forall j :: 0 <= j && j < len(posts) ==> posts[j] == old(posts[j])
//@   // handlers reach the queue only through Post, which appends in place or moves it to fresh storage
//@   ensures disjoint(p.posts[0:cap(p.posts)], posts[0:cap(posts)]) && (p.spare == nil || p.spare == old(p.spare))

//@ func (*poller).dispatch
//@   prop C05, C03
//@   requires pInv(p)
//@   ensures [inv] pInv(p)
//@   loop 1 invariant pInv(p) && len(p.posts) == old(len(p.posts)) && ptr(p.posts) == old(ptr(p.posts)) &&
//@          (forall j :: 0 <= j && j < len(p.posts) ==> p.posts[j] == old(p.posts[j]))
//@   // handlers still to run are the entry queue's, untouched, in order
//@   loop 2 invariant pInv(p) && -1 <= rangeindex && rangeindex < max(len(posts), 1) && len(posts) == old(len(p.posts)) &&
//@          (forall j :: rangeindex < j && j < len(posts) ==> posts[j] == old(p.posts[j])) &&
//@          disjoint(p.posts[0:cap(p.posts)], posts[0:cap(posts)])
//@   // the queue is empty as soon as it has been swapped out: handlers posted from now on run in the next cycle
//@   assert call Unlock#1: len(p.posts) == 0 && alias(posts, old(p.posts))
//@   // ... and it no longer shares storage with the live queue: a Post made while the batch runs
//@   // cannot overwrite a handler that has not run yet
//@   assert call Unlock#1: disjoint(p.posts[0:cap(p.posts)], posts[0:cap(posts)]) && p.spare == nil
//@   // exactly once, in posting order: iteration i runs the i-th handler of the entry queue
//@   assert call handler: handler == old(p.posts[i]) && handler != nil
//@   // a posted handler stops counting as pending once it has run: one less per handler, whatever
//@   // the handler itself posted or started
//@   remember after call handler: ranAt := p.pending
//@   loop 2 step [count] p.pending == ranAt - 1

// Rely of Poll on the I/O handlers it dispatches (library reactors that end in user
// callbacks): on return the poller is consistent and the slot of the batch entry being
// processed still satisfies the slot invariant "an armed direction has a handler".
//@ func fnparam:(*poller).Poll.Handlers
//@   trusted
//@   ensures pInv(p)
//@   ensures armed(slot, PollerWriteEvent) ==> slot.Handlers[1] != nil

//@ func (*poller).Poll
//@   prop C01, C03
//@   arith bv
//@   requires pInv(p)
//@   // kernel: epoll_wait returns at most maxevents entries, each carrying the *Slot that was
//@   // registered; an armed direction always has a handler (precondition of SetRead/SetWrite)
//@   assume def n: n <= len(p.events)
//@   assume def slot: slot != nil && (armed(slot, PollerReadEvent) ==> slot.Handlers[0] != nil) &&
//@          (armed(slot, PollerWriteEvent) ==> slot.Handlers[1] != nil)
//@   loop 1 invariant pInv(p) && 0 <= i && n <= len(p.events)
//@   // posted handlers are dispatched for the waker's event only: every other entry belongs to an
//@   // I/O slot and goes through the readiness tests below
//@   assert call dispatch: [waker-only] slot.Fd == p.waker.fd
//@   // every entry the kernel returned is looked at, in order: none skipped, none twice
//@   loop 1 starts i == 0
//@   loop 1 step i == i$head + 1
//@   // readable, hang-up or error on a descriptor with a read armed completes the read;
//@   // likewise for writes: no armed operation is left behind when the peer goes away
//@   assert at "PollerReadEvent == PollerReadEvent": (event.Mask & 25 != 0 && armed(slot, PollerReadEvent)) ==>
//@          events&slot.Events&PollerReadEvent == PollerReadEvent
//@   assert at "PollerWriteEvent == PollerWriteEvent": (events & 28 != 0 && armed(slot, PollerWriteEvent)) ==>
//@          events&slot.Events&PollerWriteEvent == PollerWriteEvent
//@   // a handler runs only for a direction that is armed right now (stale entries are filtered),
//@   // and its interest is removed before it runs
//@   assert call DelRead: armed(slot, PollerReadEvent)
//@   assert call DelWrite: armed(slot, PollerWriteEvent)
//@   assert call Handlers#1: !armed(slot, PollerReadEvent)
//@   assert call Handlers#2: !armed(slot, PollerWriteEvent)
//@   ensures [timeout] n == 0 && timeoutMs >= 0 && err == nil ==> false
//@   ensures [count] err == nil ==> n >= 0
//@   ensures [inv] pInv(p)

// internal.Poller has a single implementation on this platform.
//@ devirtualize Poller poller

// A slot's descriptor is fixed when its owner is constructed.
//@ immutable [C01,C03,C13] Slot.Fd constructors newFile, NewEventFd, NewPipe, NewAsyncAdapter, NewUDPPeer, NewTimer, Listen, NewPacketConn

// Address conversion helpers: outside the claim (type switches over net.Addr implementations);
// they allocate and return, and write nothing that existed before.
//@ func ToSockaddr
//@   trusted
//@   modifies nothing
//@ func FromSockaddr
//@   trusted
//@   modifies nothing
// (SocketAddress: see the constructors section below)

// --- timerfd based timer (C04, C03) ------------------------------------------------------------

//@ immutable [C04,C03] Timer.fd Timer.poller constructors NewTimer

//@ pred tiInv(t *Timer) = t.poller != nil && pInv(t.poller) && t.slot.Fd == t.fd && 0 <= t.fd

//@ func ext:golang.org/x/sys/unix.NsecToTimespec
//@   trusted
//@   ensures result.Sec * 1000000000 + result.Nsec == nsec && 0 <= result.Nsec && result.Nsec < 1000000000
//@   modifies nothing

//@ func ext:golang.org/x/sys/unix.TimerfdSettime
//@   trusted
//@   modifies nothing

//@ func fnparam:(*Timer).Set$1.cb
//@   trusted
//@   ensures pInv(t.poller)

// The handler the poller dispatches when the timerfd is readable. The kernel's expiration
// count is the oracle for "the delay has elapsed": a stale batch entry for a timer that was
// cancelled and re-armed in the same poll cycle reads EAGAIN and must not run the callback.
//@ func (*Timer).Set$1
//@   prop C04, C03
//@   requires t != nil && tiInv(t) && cb != nil
//@   requires !armed(&t.slot, PollerReadEvent)
//@   remember after call syscall.Read: expired = (result0 == 8 && result1 == nil)
//@   remember after call SetRead: rearmFailed = (result != nil)
//@   assert call cb: expired
//@   // a stale event does not lose the schedule: the callback runs now, or the timer keeps waiting
//@   // (armed and counted again), unless the poller itself refuses the registration
//@   consumes cb unless armed(&t.slot, PollerReadEvent) || rearmFailed
//@   ensures [stale-keeps-waiting] invoked(cb) == 0 && !rearmFailed ==> t.poller.pending == old(t.poller.pending) + 1

//@ func (*Timer).Unset
//@   prop C04, C03
//@   requires tiInv(t)
//@   ensures [idle] !old(armed(&t.slot, PollerReadEvent)) ==> result == nil && t.slot.Events == old(t.slot.Events) && t.poller.pending == old(t.poller.pending)
//@   ensures [disarmed] result == nil ==> !armed(&t.slot, PollerReadEvent)
//@   ensures [failed] result != nil ==> (t.slot.Events == old(t.slot.Events) && t.poller.pending == old(t.poller.pending)) ||
//@           (t.slot.Events == old(t.slot.Events) &^ (PollerReadEvent | PollerWriteEvent) &&
//@            t.poller.pending == old(t.poller.pending) - 1 - (old(armed(&t.slot, PollerWriteEvent)) ? 1 : 0))
//@   ensures [all] result == nil && old(armed(&t.slot, PollerReadEvent)) ==> t.slot.Events == old(t.slot.Events) &^ (PollerReadEvent | PollerWriteEvent)
//@   ensures [count] result == nil && old(armed(&t.slot, PollerReadEvent)) ==> t.poller.pending == old(t.poller.pending) - 1 - (old(armed(&t.slot, PollerWriteEvent)) ? 1 : 0)
//@   // disarming stops the kernel timer first: expiration zero, interval zero
//@   assert call TimerfdSettime: arg0 == t.fd && arg1 == 0 && arg2.Value.Sec == 0 && arg2.Value.Nsec == 0 && arg2.Interval.Sec == 0 && arg2.Interval.Nsec == 0

//@ func (*Timer).Set
//@   prop C04, C03
//@   requires tiInv(t) && cb != nil
//@   // exactly the requested delay, one shot
//@   assert call TimerfdSettime: arg0 == t.fd && arg1 == 0 && arg2.Value.Sec * 1000000000 + arg2.Value.Nsec == int64(dur) &&
//@          arg2.Interval.Sec == 0 && arg2.Interval.Nsec == 0
//@   ensures [armed] result == nil ==> armed(&t.slot, PollerReadEvent) && t.slot.Handlers[0] != nil
//@   ensures [write-side] !old(armed(&t.slot, PollerReadEvent)) ==> armed(&t.slot, PollerWriteEvent) == old(armed(&t.slot, PollerWriteEvent))
//@   ensures [count] result == nil && !old(armed(&t.slot, PollerReadEvent)) ==> t.poller.pending == old(t.poller.pending) + 1
//@   ensures [failed] result != nil && !old(armed(&t.slot, PollerReadEvent)) ==> !armed(&t.slot, PollerReadEvent) && t.poller.pending == old(t.poller.pending)

//@ func (*Timer).Close
//@   prop C04, C13, C03
//@   requires tiInv(t)
//@   assert call syscall.Close: arg0 == t.fd
//@   // whatever the kernel answers, a closed timer is not armed and not counted as pending
//@   ensures [disarmed] !armed(&t.slot, PollerReadEvent) && !armed(&t.slot, PollerWriteEvent)
//@   ensures [count] t.poller.pending == old(t.poller.pending) - (old(armed(&t.slot, PollerReadEvent)) ? 1 : 0) - (old(armed(&t.slot, PollerWriteEvent)) ? 1 : 0)

// --- descriptors created by constructors (C13: a constructor that fails leaves the process with
// exactly the descriptors it had) --------------------------------------------------------------
// FDOPEN is the ghost table of open descriptors (declared in the root package's contracts): the
// kernel opens one in socket(2) and releases one in close(2); nothing else in these paths does.

//@ func ext:syscall.Socket
//@   trusted
//@   ensures err == nil ==> fd >= 0 && old(FDOPEN[fd]) == 0 && (forall k :: FDOPEN[k] == ((k == fd) ? 1 : old(FDOPEN[k])))
//@   ensures err != nil ==> (forall k :: FDOPEN[k] == old(FDOPEN[k]))
//@   modifies FDOPEN
// kernel assumption: fcntl(F_SETFL) on a descriptor that is open does not fail
//@ func ext:syscall.SetNonblock
//@   trusted
//@   ensures FDOPEN[fd] == 1 ==> err == nil
//@   modifies nothing
//@ func ext:syscall.Bind
//@   trusted
//@   modifies nothing
//@ func ext:syscall.Listen
//@   trusted
//@   modifies nothing
//@ func ext:net.ResolveUDPAddr
//@   trusted
//@   ensures result1 == nil ==> result0 != nil
//@   modifies nothing
//@ func ext:net.ResolveTCPAddr
//@   trusted
//@   ensures result1 == nil ==> result0 != nil
//@   modifies nothing
//@ func ext:net.IP.IsUnspecified
//@   trusted
//@   modifies nothing
//@ func ApplyOpts
//@   trusted
//@   modifies nothing

//@ func socket
//@   prop C13
//@   ensures [no-leak] err != nil ==> (forall k :: FDOPEN[k] == old(FDOPEN[k]))
//@   ensures [opened] err == nil ==> fd >= 0 && old(FDOPEN[fd]) == 0 && (forall k :: FDOPEN[k] == ((k == fd) ? 1 : old(FDOPEN[k])))

//@ func CreateSocketUDP
//@   prop C13
//@   ensures [no-leak] err != nil ==> (forall k :: FDOPEN[k] == old(FDOPEN[k]))
//@   ensures [opened] err == nil ==> fd >= 0 && old(FDOPEN[fd]) == 0 && (forall k :: FDOPEN[k] == ((k == fd) ? 1 : old(FDOPEN[k])))

//@ func CreateSocketTCP
//@   prop C13
//@   ensures [no-leak] err != nil ==> (forall k :: FDOPEN[k] == old(FDOPEN[k]))
//@   ensures [opened] err == nil ==> fd >= 0 && old(FDOPEN[fd]) == 0 && (forall k :: FDOPEN[k] == ((k == fd) ? 1 : old(FDOPEN[k])))

//@ func Listen
//@   prop C13
//@   requires len(network) >= 3
//@   ensures [no-leak] result2 != nil ==> (forall k :: FDOPEN[k] == old(FDOPEN[k]))
//@   ensures [opened] result2 == nil ==> result0 >= 0 && old(FDOPEN[result0]) == 0 && (forall k :: FDOPEN[k] == ((k == result0) ? 1 : old(FDOPEN[k])))

//@ func ListenUDP
//@   prop C13
//@   requires len(network) >= 3
//@   ensures [no-leak] result2 != nil ==> (forall k :: FDOPEN[k] == old(FDOPEN[k]))
//@   ensures [opened] result2 == nil ==> result0 >= 0 && old(FDOPEN[result0]) == 0 && (forall k :: FDOPEN[k] == ((k == result0) ? 1 : old(FDOPEN[k])))

// connect(2) with its retry and select loops is outside the contracts: it opens and closes nothing.
//@ func connect
//@   trusted
//@   modifies nothing
// kernel assumption: getsockname on a descriptor that is an open socket does not fail
//@ func SocketAddress
//@   trusted
//@   ensures FDOPEN[fd] == 1 ==> result1 == nil
//@   modifies nothing

//@ func ConnectTCP
//@   prop C13
//@   ensures [no-leak] err != nil ==> (forall k :: FDOPEN[k] == old(FDOPEN[k]))
//@   ensures [opened] err == nil ==> fd >= 0 && old(FDOPEN[fd]) == 0 && (forall k :: FDOPEN[k] == ((k == fd) ? 1 : old(FDOPEN[k])))

//@ func ConnectUDP
//@   prop C13
//@   ensures [no-leak] err != nil ==> (forall k :: FDOPEN[k] == old(FDOPEN[k]))
//@   ensures [opened] err == nil ==> fd >= 0 && old(FDOPEN[fd]) == 0 && (forall k :: FDOPEN[k] == ((k == fd) ? 1 : old(FDOPEN[k])))

//@ func ConnectTimeout
//@   prop C13
//@   requires len(network) >= 3
//@   ensures [no-leak] err != nil ==> (forall k :: FDOPEN[k] == old(FDOPEN[k]))
//@   ensures [opened] err == nil ==> fd >= 0 && FDOPEN[fd] == 1

// --- the poller's own descriptors (C13) ---
//@ func (*EventFd).Close
//@   prop C13
//@   assert call syscall.Close: arg0 == e.fd
//@   ensures [released] forall k :: FDOPEN[k] == ((k == e.fd) ? 0 : old(FDOPEN[k]))
//@   modifies FDOPEN

//@ func (*poller).Close
//@   prop C13
//@   requires pInv(p)
//@   // only the first Close releases the epoll descriptor and the waker's
//@   assert call syscall.Close: [first-close-only] old(p.closed) == 0 && arg0 == p.fd
//@   assert call EventFd).Close: [first-close-only-waker] old(p.closed) == 0
//@   ensures [already-closed] old(p.closed) != 0 ==> result != nil && (forall k :: FDOPEN[k] == old(FDOPEN[k]))
//@   ensures [released] old(p.closed) == 0 ==> FDOPEN[p.fd] == 0 && FDOPEN[p.waker.fd] == 0 && p.closed == 1
//@   ensures [nothing-else] forall k :: k != p.fd && k != p.waker.fd ==> FDOPEN[k] == old(FDOPEN[k])
