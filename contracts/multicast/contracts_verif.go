//go:build verif

package multicast

// Contracts for the asynchronous read/write paths of UDPPeer (properties C01 exactly-once, C14
// dispatch depth, C12 what a completed datagram operation reports): the same structure as
// packetConn in the root package.

//@ immutable [C01,C14] UDPPeer.ioc UDPPeer.socket UDPPeer.read UDPPeer.write UDPPeer.stats readReactor.peer writeReactor.peer constructors NewUDPPeer

//@ pred upInv(p *UDPPeer) = p.ioc != nil && 0 <= p.slot.Fd && p.ioc.poller != nil && internal.pInv(p.ioc.poller) && p.socket != nil &&
//@   p.read != nil && p.write != nil && p.read.peer == p && p.write.peer == p && p.stats != nil
//@ pred upArmedR(p *UDPPeer) = internal.armed(&p.slot, internal.PollerReadEvent)
//@ pred upArmedW(p *UDPPeer) = internal.armed(&p.slot, internal.PollerWriteEvent)

//@ func fnparam:(*UDPPeer).*.fn
//@   trusted
//@   ensures internal.pInv(p.ioc.poller) && p.ioc.Dispatched == old(p.ioc.Dispatched)

//@ func (*UDPPeer).Closed
//@   pure

// The socket layer (recvfrom/sendto and address conversion) is outside these contracts.
//@ func (*UDPPeer).Read
//@   trusted
//@   modifies mem(b)
//@ func (*UDPPeer).Write
//@   trusted
//@   modifies nothing

//@ func (*UDPPeer).scheduleRead
//@   prop C01, C03
//@   requires upInv(p) && fn != nil && !upArmedR(p)
//@   consumes fn unless upArmedR(p)
//@   ensures [armed] invoked(fn) == 0 ==> p.ioc.poller.pending == old(p.ioc.poller.pending) + 1 && p.slot.Handlers[0] != nil
//@   ensures [C12 recorded] invoked(fn) == 0 ==> alias(p.read.b, old(p.read.b)) && p.read.fn == old(p.read.fn)
//@   ensures [depth] p.ioc.Dispatched == old(p.ioc.Dispatched)

//@ func (*UDPPeer).SetAsyncReadBuffer
//@   prop C12
//@   requires upInv(p)
//@   ensures [designated] alias(p.read.b, to)

//@ func (*UDPPeer).asyncReadNow
//@   prop C01, C12
//@   requires upInv(p) && fn != nil && !upArmedR(p)
//@   // one receive, into the buffer given; a completed read reports that datagram's length; an
//@   // error is never turned into success and would-block is waited for, never reported
//@   assert call UDPPeer).Read: [C12 buffer] alias(arg1, b)
//@   remember after call UDPPeer).Read: moved = result2 == nil
//@   remember after call UDPPeer).Read: got := result0
//@   assert call fn: [C12 no-swallowed-error] (arg0 == nil ==> moved && arg1 == got) && arg0 != sonicerrors.ErrWouldBlock
//@   consumes fn unless upArmedR(p)
//@   ensures [depth] p.ioc.Dispatched == old(p.ioc.Dispatched)

//@ func (*UDPPeer).AsyncRead$1
//@   prop C14, C01
//@   requires p != nil && upInv(p) && fn != nil && 0 <= p.ioc.Dispatched && p.ioc.Dispatched < sonic.MaxCallbackDispatch
//@   assert call fn: 1 <= p.ioc.Dispatched && p.ioc.Dispatched <= sonic.MaxCallbackDispatch && arg0 == err && arg1 == n
//@   consumes fn
//@   ensures [depth] p.ioc.Dispatched == old(p.ioc.Dispatched)

//@ func (*UDPPeer).AsyncRead
//@   prop C01, C14
//@   requires upInv(p) && fn != nil && !upArmedR(p) && 0 <= p.ioc.Dispatched && p.ioc.Dispatched <= sonic.MaxCallbackDispatch
//@   inline call (*UDPPeer).asyncReadNow
//@   // the immediate attempt is made only below the dispatch limit
//@   assert call UDPPeer).Read: p.ioc.Dispatched < sonic.MaxCallbackDispatch
//@   assert any call fn: [C14 counted] p.ioc.Dispatched > old(p.ioc.Dispatched)
//@   consumes fn unless upArmedR(p)
//@   // a read that is waiting will be made into this buffer and completes this callback
//@   ensures [C12 recorded] invoked(fn) == 0 ==> alias(p.read.b, b) && p.read.fn == fn
//@   ensures [depth] p.ioc.Dispatched == old(p.ioc.Dispatched)

//@ func (*UDPPeer).scheduleWrite
//@   prop C01, C03
//@   requires upInv(p) && fn != nil && !upArmedW(p)
//@   consumes fn unless upArmedW(p)
//@   ensures [armed] invoked(fn) == 0 ==> p.ioc.poller.pending == old(p.ioc.poller.pending) + 1 && p.slot.Handlers[1] != nil
//@   ensures [C12 recorded] invoked(fn) == 0 ==> alias(p.write.b, old(p.write.b)) && p.write.addr == old(p.write.addr) && p.write.fn == old(p.write.fn)
//@   ensures [depth] p.ioc.Dispatched == old(p.ioc.Dispatched)

//@ func (*UDPPeer).asyncWriteNow
//@   prop C01, C12
//@   requires upInv(p) && fn != nil && !upArmedW(p)
//@   // one send, of exactly the caller's bytes to the given destination
//@   assert call UDPPeer).Write: [C12 datagram] alias(arg1, b) && arg2 == addr
//@   remember after call UDPPeer).Write: moved = result1 == nil
//@   remember after call UDPPeer).Write: sent := result0
//@   assert call fn: [C12 no-swallowed-error] (arg0 == nil ==> moved && arg1 == sent) && arg0 != sonicerrors.ErrWouldBlock
//@   consumes fn unless upArmedW(p)
//@   ensures [depth] p.ioc.Dispatched == old(p.ioc.Dispatched)

//@ func (*UDPPeer).AsyncWrite$1
//@   prop C14, C01
//@   requires p != nil && upInv(p) && fn != nil && 0 <= p.ioc.Dispatched && p.ioc.Dispatched < sonic.MaxCallbackDispatch
//@   assert call fn: 1 <= p.ioc.Dispatched && p.ioc.Dispatched <= sonic.MaxCallbackDispatch && arg0 == err && arg1 == n
//@   consumes fn
//@   ensures [depth] p.ioc.Dispatched == old(p.ioc.Dispatched)

//@ func (*UDPPeer).AsyncWrite
//@   prop C01, C14
//@   requires upInv(p) && fn != nil && !upArmedW(p) && 0 <= p.ioc.Dispatched && p.ioc.Dispatched <= sonic.MaxCallbackDispatch
//@   inline call (*UDPPeer).asyncWriteNow
//@   assert call UDPPeer).Write: p.ioc.Dispatched < sonic.MaxCallbackDispatch
//@   assert any call fn: [C14 counted] p.ioc.Dispatched > old(p.ioc.Dispatched)
//@   consumes fn unless upArmedW(p)
//@   // a write that is waiting will send these bytes to this destination and completes this callback
//@   ensures [C12 recorded] invoked(fn) == 0 ==> alias(p.write.b, b) && p.write.fn == fn
//@   ensures [C12 recorded-destination] invoked(fn) == 0 ==> p.write.addr == addr
//@   ensures [depth] p.ioc.Dispatched == old(p.ioc.Dispatched)

// The handlers the poller dispatches for deferred operations: the recorded callback is completed
// exactly once, now or (would-block again) after the operation is armed again.
//@ func (*readReactor).on
//@   prop C01, C12
//@   requires r.peer != nil && upInv(r.peer) && r.peer.read == r && r.fn != nil && !upArmedR(r.peer)
//@   // the reactor itself reports only the poller's error; otherwise the read is attempted into
//@   // the buffer designated for it at this moment
//@   assert call fn: [C12 only-poller-errors] err != nil && arg0 == err
//@   assert call asyncReadNow: [C12 designated-buffer] alias(arg1, r.b) && arg2 == r.fn
//@   consumes r.fn unless upArmedR(r.peer)

//@ func (*writeReactor).on
//@   prop C01, C12
//@   requires r.peer != nil && upInv(r.peer) && r.peer.write == r && r.fn != nil && !upArmedW(r.peer)
//@   assert call fn: [C12 only-poller-errors] err != nil && arg0 == err
//@   assert call asyncWriteNow: [C12 resumed-as-started] alias(arg1, r.b) && arg2 == r.addr && arg3 == r.fn
//@   consumes r.fn unless upArmedW(r.peer)
