//go:build verif

package multicast

// Contracts for the asynchronous read/write paths of UDPPeer (properties C01 exactly-once, C14
// dispatch depth, C12 what a completed datagram operation reports): the same structure as
// packetConn in the root package.

//@ immutable [C01,C14] UDPPeer.ioc UDPPeer.socket UDPPeer.read UDPPeer.write UDPPeer.stats readReactor.peer writeReactor.peer constructors NewUDPPeer

//@ pred upInv(p *UDPPeer) = p.ioc != nil && 0 <= p.slot.Fd && p.ioc.poller != nil && internal.pInv(p.ioc.poller) && p.socket != nil &&
//@   p.read != nil && p.write != nil && p.read.peer == p && p.write.peer == p && p.stats != nil
//@ pred upArmedR(p *UDPPeer) = internal.armed(&p.slot, internal.PollerReadEvent)
//@ pred upArmedW(p *UDPPeer) = internal.armed(&p.slot, internal.PollerWriteEvent)

//@ func fnparam:(*UDPPeer).*.fn
//@   trusted
//@   ensures internal.pInv(p.ioc.poller) && p.ioc.Dispatched == old(p.ioc.Dispatched)

//@ func (*UDPPeer).Closed
//@   pure

// The socket layer (recvfrom/sendto and address conversion) is outside these contracts.
//@ func (*UDPPeer).Read
//@   trusted
//@   modifies mem(b)
//@ func (*UDPPeer).Write
//@   trusted
//@   modifies nothing

//@ func (*UDPPeer).scheduleRead
//@   prop C01, C03
//@   requires upInv(p) && fn != nil && !upArmedR(p)
//@   consumes fn unless upArmedR(p)
//@   ensures [armed] invoked(fn) == 0 ==> p.ioc.poller.pending == old(p.ioc.poller.pending) + 1 && p.slot.Handlers[0] != nil
//@   ensures [C12 recorded] invoked(fn) == 0 ==> alias(p.read.b, old(p.read.b)) && p.read.fn == old(p.read.fn)
//@   assert any call fn: [C12 error-count] arg0 != nil && arg1 == 0
//@   ensures [depth] p.ioc.Dispatched == old(p.ioc.Dispatched)

//@ func (*UDPPeer).SetAsyncReadBuffer
//@   prop C12
//@   requires upInv(p)
//@   ensures [designated] alias(p.read.b, to)

//@ func (*UDPPeer).asyncReadNow
//@   prop C01, C12
//@   requires upInv(p) && fn != nil && !upArmedR(p)
//@   // one receive, into the buffer given; a completed read reports that datagram's length; an
//@   // error is never turned into success and would-block is waited for, never reported
//@   assert call UDPPeer).Read: [C12 buffer] alias(arg1, b)
//@   remember after call UDPPeer).Read: moved = result2 == nil
//@   remember after call UDPPeer).Read: got := result0
//@   assert call fn: [C12 no-swallowed-error] (arg0 == nil ==> moved && arg1 == got) && arg0 != sonicerrors.ErrWouldBlock
//@   // an error other than would-block is reported now, with no bytes counted
//@   remember after call UDPPeer).Read: failed = result2 != nil && result2 != sonicerrors.ErrWouldBlock
//@   assert call fn: [C12 error-count] arg0 != nil ==> arg1 == 0
//@   ensures [C12 errors-reported] failed ==> invoked(fn) == 1
//@   consumes fn unless upArmedR(p)
//@   ensures [depth] p.ioc.Dispatched == old(p.ioc.Dispatched)

//@ func (*UDPPeer).AsyncRead$1
//@   prop C14, C01
//@   requires p != nil && upInv(p) && fn != nil && 0 <= p.ioc.Dispatched && p.ioc.Dispatched < sonic.MaxCallbackDispatch
//@   assert call fn: 1 <= p.ioc.Dispatched && p.ioc.Dispatched <= sonic.MaxCallbackDispatch && arg0 == err && arg1 == n
//@   consumes fn
//@   ensures [depth] p.ioc.Dispatched == old(p.ioc.Dispatched)

//@ func (*UDPPeer).AsyncRead
//@   prop C01, C14
//@   requires upInv(p) && fn != nil && !upArmedR(p) && 0 <= p.ioc.Dispatched && p.ioc.Dispatched <= sonic.MaxCallbackDispatch
//@   inline call (*UDPPeer).asyncReadNow
//@   // the immediate attempt is made only below the dispatch limit
//@   assert call UDPPeer).Read: p.ioc.Dispatched < sonic.MaxCallbackDispatch
//@   assert any call fn: [C14 counted] p.ioc.Dispatched > old(p.ioc.Dispatched)
//@   consumes fn unless upArmedR(p)
//@   // a read that is waiting will be made into this buffer and completes this callback
//@   ensures [C12 recorded] invoked(fn) == 0 ==> alias(p.read.b, b) && p.read.fn == fn
//@   ensures [depth] p.ioc.Dispatched == old(p.ioc.Dispatched)

//@ func (*UDPPeer).scheduleWrite
//@   prop C01, C03
//@   requires upInv(p) && fn != nil && !upArmedW(p)
//@   consumes fn unless upArmedW(p)
//@   ensures [armed] invoked(fn) == 0 ==> p.ioc.poller.pending == old(p.ioc.poller.pending) + 1 && p.slot.Handlers[1] != nil
//@   ensures [C12 recorded] invoked(fn) == 0 ==> alias(p.write.b, old(p.write.b)) && p.write.addr == old(p.write.addr) && p.write.fn == old(p.write.fn)
//@   assert any call fn: [C12 error-count] arg0 != nil && arg1 == 0
//@   ensures [depth] p.ioc.Dispatched == old(p.ioc.Dispatched)

//@ func (*UDPPeer).asyncWriteNow
//@   prop C01, C12
//@   requires upInv(p) && fn != nil && !upArmedW(p)
//@   // one send, of exactly the caller's bytes to the given destination
//@   assert call UDPPeer).Write: [C12 datagram] alias(arg1, b) && arg2 == addr
//@   remember after call UDPPeer).Write: moved = result1 == nil
//@   remember after call UDPPeer).Write: sent := result0
//@   assert call fn: [C12 no-swallowed-error] (arg0 == nil ==> moved && arg1 == sent) && arg0 != sonicerrors.ErrWouldBlock
//@   // only would-block and "no buffer space" are waited for; any other error is reported now, with no bytes counted
//@   remember after call UDPPeer).Write: failed = result1 != nil && result1 != sonicerrors.ErrWouldBlock && result1 != sonicerrors.ErrNoBufferSpaceAvailable
//@   assert call fn: [C12 error-count] arg0 != nil ==> arg1 == 0
//@   ensures [C12 errors-reported] failed ==> invoked(fn) == 1
//@   consumes fn unless upArmedW(p)
//@   ensures [depth] p.ioc.Dispatched == old(p.ioc.Dispatched)

//@ func (*UDPPeer).AsyncWrite$1
//@   prop C14, C01
//@   requires p != nil && upInv(p) && fn != nil && 0 <= p.ioc.Dispatched && p.ioc.Dispatched < sonic.MaxCallbackDispatch
//@   assert call fn: 1 <= p.ioc.Dispatched && p.ioc.Dispatched <= sonic.MaxCallbackDispatch && arg0 == err && arg1 == n
//@   consumes fn
//@   ensures [depth] p.ioc.Dispatched == old(p.ioc.Dispatched)

//@ func (*UDPPeer).AsyncWrite
//@   prop C01, C14
//@   requires upInv(p) && fn != nil && !upArmedW(p) && 0 <= p.ioc.Dispatched && p.ioc.Dispatched <= sonic.MaxCallbackDispatch
//@   inline call (*UDPPeer).asyncWriteNow
//@   assert call UDPPeer).Write: p.ioc.Dispatched < sonic.MaxCallbackDispatch
//@   assert any call fn: [C14 counted] p.ioc.Dispatched > old(p.ioc.Dispatched)
//@   consumes fn unless upArmedW(p)
//@   // a write that is waiting will send these bytes to this destination and completes this callback
//@   ensures [C12 recorded] invoked(fn) == 0 ==> alias(p.write.b, b) && p.write.fn == fn
//@   ensures [C12 recorded-destination] invoked(fn) == 0 ==> p.write.addr == addr
//@   ensures [depth] p.ioc.Dispatched == old(p.ioc.Dispatched)

// The handlers the poller dispatches for deferred operations: the recorded callback is completed
// exactly once, now or (would-block again) after the operation is armed again.
//@ func (*readReactor).on
//@   prop C01, C12
//@   requires r.peer != nil && upInv(r.peer) && r.peer.read == r && r.fn != nil && !upArmedR(r.peer)
//@   // the reactor itself reports only the poller's error; otherwise the read is attempted into
//@   // the buffer designated for it at this moment
//@   assert call fn: [C12 only-poller-errors] err != nil && arg0 == err
//@   assert call asyncReadNow: [C12 designated-buffer] alias(arg1, r.b) && arg2 == r.fn
//@   consumes r.fn unless upArmedR(r.peer)

//@ func (*writeReactor).on
//@   prop C01, C12
//@   requires r.peer != nil && upInv(r.peer) && r.peer.write == r && r.fn != nil && !upArmedW(r.peer)
//@   assert call fn: [C12 only-poller-errors] err != nil && arg0 == err
//@   assert call asyncWriteNow: [C12 resumed-as-started] alias(arg1, r.b) && arg2 == r.addr && arg3 == r.fn
//@   consumes r.fn unless upArmedW(r.peer)

// --- settings (C12): what the peer reports is what the socket was last successfully told ---

//@ func (*UDPPeer).SetLoop
//@   prop C12
//@   requires p.socket != nil
//@   assert call SetMulticastLoop: arg0 == p.socket && arg1 == loop
//@   remember after call SetMulticastLoop: told = result == nil
//@   // the cached value follows the kernel: updated exactly when the kernel accepted the new one
//@   ensures [cache-follows-kernel] (told ==> p.loop == loop) && (!told ==> p.loop == old(p.loop))
//@   ensures [outcome] (result == nil) == told

//@ func (*UDPPeer).Loop
//@   prop C12
//@   ensures [cached] result == p.loop
//@   modifies nothing

//@ func (*UDPPeer).SetTTL
//@   prop C12
//@   requires p.socket != nil
//@   assert call SetMulticastTTL: arg0 == p.socket && arg1 == ttl
//@   remember after call SetMulticastTTL: told = result == nil
//@   ensures [cache-follows-kernel] (told ==> p.ttl == ttl) && (!told ==> p.ttl == old(p.ttl))
//@   ensures [outcome] (result == nil) == told

//@ func (*UDPPeer).TTL
//@   prop C12
//@   ensures [cached] result == p.ttl
//@   modifies nothing

//@ func (*UDPPeer).SetAll
//@   prop C12
//@   requires p.socket != nil
//@   assert call SetMulticastAll: arg0 == p.socket && arg1 == all
//@   remember after call SetMulticastAll: told = result == nil
//@   ensures [cache-follows-kernel] (told ==> p.all == all) && (!told ==> p.all == old(p.all))
//@   ensures [outcome] (result == nil) == told

//@ func (*UDPPeer).All
//@   prop C12
//@   ensures [cached] result == p.all
//@   modifies nothing

// Interface lookup and the IP_MULTICAST_IF wrapper (loops over interface addresses, type
// switches over net.Addr) are outside the contracts: they allocate and write nothing that existed.
//@ func resolveMulticastInterface
//@   trusted
//@   modifies nothing
//@ func ipv4.SetMulticastInterface
//@   trusted
//@   modifies nothing

//@ func (*UDPPeer).SetOutboundIPv4
//@   prop C12
//@   requires p.socket != nil
//@   assert call SetMulticastInterface: arg0 == p.socket
//@   remember after call SetMulticastInterface: told = result1 == nil
//@   // the reported outbound interface changes only when the kernel accepted the new one
//@   ensures [cache-only-on-success] !told ==> p.outbound == old(p.outbound) && p.outboundIP == old(p.outboundIP)
//@   remember after call resolveMulticastInterface: which := result0
//@   ensures [cache-follows-kernel] told ==> p.outbound == which

// --- membership (C12): the peer asks the kernel for exactly the operation its caller named ---
// (what the kernel then delivers is outside the code)

//@ func (*UDPPeer).joinIPv4
//@   prop C12
//@   requires p.socket != nil
//@   // any-source join when no source is given, source-specific join otherwise; same group, interface, source
//@   assert call ipv4.AddMembership: sourceIP.addr.hi == 0 && sourceIP.addr.lo == 0 && sourceIP.z.value == nil &&
//@          arg0 == p.socket && arg1 == multicastIP && arg2 == iff
//@   assert call ipv4.AddSourceMembership: !(sourceIP.addr.hi == 0 && sourceIP.addr.lo == 0 && sourceIP.z.value == nil) &&
//@          arg0 == p.socket && arg1 == multicastIP && arg2 == sourceIP && arg3 == iff
//@   remember call ipv4.AddMembership: joined = true
//@   remember call ipv4.AddSourceMembership: joinedSource = true
//@   ensures [request-made] joined != joinedSource

//@ func (*UDPPeer).leaveIPv4
//@   prop C12
//@   requires p.socket != nil
//@   assert call ipv4.DropMembership: sourceIP.addr.hi == 0 && sourceIP.addr.lo == 0 && sourceIP.z.value == nil &&
//@          arg0 == p.socket && arg1 == multicastIP
//@   assert call ipv4.DropSourceMembership: !(sourceIP.addr.hi == 0 && sourceIP.addr.lo == 0 && sourceIP.z.value == nil) &&
//@          arg0 == p.socket && arg1 == multicastIP && arg2 == sourceIP
//@   remember call ipv4.DropMembership: left = true
//@   remember call ipv4.DropSourceMembership: leftSource = true
//@   ensures [request-made] left != leftSource

//@ func (*UDPPeer).blockIPv4
//@   prop C12
//@   requires p.socket != nil
//@   assert call ipv4.BlockSource: arg0 == p.socket && arg1 == multicastIP && arg2 == sourceIP
//@   remember call ipv4.BlockSource: asked = true
//@   ensures [request-made] asked

//@ func (*UDPPeer).unblockIPv4
//@   prop C12
//@   requires p.socket != nil
//@   assert call ipv4.UnblockSource: arg0 == p.socket && arg1 == multicastIP && arg2 == sourceIP
//@   remember call ipv4.UnblockSource: asked = true
//@   ensures [request-made] asked

// --- Close (C13, C01, C03) ---
//@ func (*UDPPeer).Close
//@   prop C13, C01, C03
//@   requires upInv(p)
//@   // only the first Close reaches the socket
//@   assert call Socket).Close: [C13 first-close-only] !old(p.closed)
//@   ensures [C13 already-closed] old(p.closed) ==> p.closed && (forall k :: FDOPEN[k] == old(FDOPEN[k]))
//@   ensures [disarmed] !old(p.closed) ==> !upArmedR(p) && !upArmedW(p) && p.closed
//@   ensures [accounting] !old(p.closed) ==> p.ioc.poller.pending == old(p.ioc.poller.pending) - (old(upArmedR(p)) ? 1 : 0) - (old(upArmedW(p)) ? 1 : 0)
//@   ensures [C13 released] !old(p.closed) && old(p.socket.fd) >= 0 ==> FDOPEN[old(p.socket.fd)] == 0
//@   ensures [C13 nothing-else] forall k :: k != old(p.socket.fd) ==> FDOPEN[k] == old(FDOPEN[k])

// --- constructor (C13): a failed NewUDPPeer leaves the descriptor table as it was ---
//@ func NewUDPPeer
//@   prop C13
//@   ensures [no-leak] result1 != nil ==> (forall k :: FDOPEN[k] == old(FDOPEN[k]))
//@   // success hands out a peer whose socket is open
//@   remember after call NewSocket: made = result1 == nil
//@   remember after call NewSocket: nfd := result0.fd
//@   ensures [opened] result1 == nil ==> made && FDOPEN[nfd] == 1 && result0 != nil
