//go:build verif

package util

// Contracts for FenwickTree (property C20) and ExtendSlice (C16, C20).

// P[k] is the ghost prefix sum  a[0] + ... + a[k]  of the abstract point values the tree
// represents; P[-1] == 0.
//@ ghostmap P

//@ pred fenInv(t *FenwickTree) =
//@   P[-1] == 0 && len(t.data) <= 1<<46 &&
//@   (forall j :: 0 <= j && j < len(t.data) ==> t.data[j] == P[j] - P[(j & (j+1)) - 1])

//@ func (*FenwickTree).Size
//@   pure

//@ func (*FenwickTree).SumUntil
//@   prop C20
//@   requires fenInv(t) && -1 <= index && index < len(t.data)
//@   loop 1 invariant -1 <= index && index < len(t.data) && sum + P[index] == P[old(index)]
//@   loop 1 decreases index + 1
//@   ensures [sum] sum == P[index]
//@   modifies nothing

//@ func (*FenwickTree).Sum
//@   prop C20
//@   requires fenInv(t)
//@   ensures [sum] result == P[len(t.data) - 1]
//@   modifies nothing

//@ func (*FenwickTree).Add
//@   prop C20
//@   requires fenInv(t) && 0 <= index
//@   loop 1 invariant old(index) <= index && (index & (index+1)) <= old(index) && len(t.data) == old(len(t.data)) && ptr(t.data) == old(ptr(t.data))
//@   loop 1 invariant unchanged_except(t.data)
//@   loop 1 invariant forall j :: 0 <= j && j < len(t.data) ==>
//@          t.data[j] == old(t.data[j]) + ((j < index && (j & (j+1)) <= old(index) && old(index) <= j) ? delta : 0)
//@   ghost P[k] = P[k] + ((k >= old(index)) ? delta : 0)
//@   ensures [inv] fenInv(t)
//@   ensures [point] forall k :: P[k] == old(P[k]) + ((k >= index) ? delta : 0)
//@   ensures [shape] len(t.data) == old(len(t.data))
//@   modifies P, mem(t.data)

//@ func (*FenwickTree).Reset
//@   prop C20
//@   requires len(t.data) <= 1<<46
//@   loop 1 invariant -1 <= rangeindex && rangeindex < max(len(t.data), 1) && len(t.data) == old(len(t.data)) && ptr(t.data) == old(ptr(t.data))
//@   loop 1 invariant forall j :: 0 <= j && j <= rangeindex ==> t.data[j] == 0
//@   loop 1 invariant unchanged_except(t.data)
//@   ghost P[k] = 0
//@   ensures [inv] fenInv(t)
//@   ensures [zero] forall k :: P[k] == 0
//@   ensures [shape] len(t.data) == old(len(t.data))
//@   modifies P, mem(t.data)

//@ func ExtendSlice
//@   prop C20, C16
//@   requires 0 <= need && need <= 1<<46 && cap(xs) <= 1<<46
//@   ensures [len] len(result) == need && cap(result) >= need && cap(result) <= max(old(cap(xs)), 4*need + 4096)
//@   ensures [inplace] need <= old(cap(xs)) ==> ptr(result) == old(ptr(xs)) && cap(result) == old(cap(xs))
//@   ensures [kept] forall j :: 0 <= j && j < min(need, old(cap(xs))) ==> result[j] == old(xs[j])
//@   ensures [grown] need > old(cap(xs)) ==> fresh(result) && (forall j :: old(cap(xs)) <= j && j < need ==> iszero(result[j]))
//@   modifies nothing

//@ func NewFenwickTree
//@   prop C20
//@   requires 0 <= n && n <= 1<<46
//@   ghost P[k] = 0
//@   ensures [inv] result != nil && fenInv(result) && len(result.data) == n
//@   ensures [zero] forall k :: P[k] == 0
//@   modifies P
