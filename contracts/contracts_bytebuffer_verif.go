//go:build verif

package sonic

// Contracts for ByteBuffer (property C09; used by C07, C19, C20, C06, C16, C17).

//@ pred bbInv(b *ByteBuffer) =
//@   0 <= b.si && b.si <= b.ri && b.ri <= b.wi && b.wi == len(b.data) && len(b.data) <= cap(b.data) &&
//@   heapslice(b.data)

//@ func (*ByteBuffer).Reserved
//@   requires bbInv(b)
//@   pure
//@ func (*ByteBuffer).SaveLen
//@   requires bbInv(b)
//@   pure
//@ func (*ByteBuffer).ReadLen
//@   requires bbInv(b)
//@   pure
//@ func (*ByteBuffer).WriteLen
//@   requires bbInv(b)
//@   pure
//@ func (*ByteBuffer).Len
//@   requires bbInv(b)
//@   pure
//@ func (*ByteBuffer).Cap
//@   requires bbInv(b)
//@   pure

//@ func NewByteBuffer
//@   prop C09
//@   ensures [inv] bbInv(result) && result.si == 0 && result.ri == 0 && result.wi == 0
//@   modifies nothing

//@ func (*ByteBuffer).Reserve
//@   prop C09
//@   requires bbInv(b)
//@   requires n <= 1<<46 && cap(b.data) <= 1<<46
//@   ensures [inv] bbInv(b) && b.si == old(b.si) && b.ri == old(b.ri) && b.wi == old(b.wi)
//@   ensures [room] n <= cap(b.data) - b.wi
//@   ensures [bounded] cap(b.data) <= max(old(cap(b.data)), 4*(old(cap(b.data)) + max(n, 0)) + 4096)
//@   ensures [content] forall j :: 0 <= j && j < b.wi ==> b.data[j] == old(b.data[j])
//@   ensures [stable] n <= old(cap(b.data) - b.wi) ==> ptr(b.data) == old(ptr(b.data)) && cap(b.data) == old(cap(b.data))
//@   ensures [where] (ptr(b.data) == old(ptr(b.data)) && cap(b.data) == old(cap(b.data))) || fresh(b.data)
//@   modifies b.data

//@ func (*ByteBuffer).Commit
//@   prop C09
//@   requires bbInv(b)
//@   ensures [inv] bbInv(b)
//@   ensures [clamp] n <= 0 ==> b.ri == old(b.ri)
//@   ensures [clamp] n > 0 ==> b.ri == old(b.ri) + min(n, old(b.wi - b.ri))
//@   modifies b.ri

//@ func (*ByteBuffer).Data
//@   prop C09
//@   requires bbInv(b)
//@   ensures [window] alias(result, b.data[b.si:b.ri])
//@   modifies nothing

//@ func (*ByteBuffer).Consume
//@   prop C09
//@   requires bbInv(b)
//@   let k = max(0, min(n, b.ri - b.si))
//@   ensures [inv] bbInv(b) && b.si == old(b.si) && b.ri == old(b.ri) - k && b.wi == old(b.wi) - k
//@   ensures [same-array] ptr(b.data) == old(ptr(b.data)) && cap(b.data) == old(cap(b.data))
//@   ensures [saved] forall j :: 0 <= j && j < b.si ==> b.data[j] == old(b.data[j])
//@   ensures [shift] forall j :: b.si <= j && j < b.wi ==> b.data[j] == old(b.data[j+k])
//@   modifies b.ri, b.wi, b.data, memcap(b.data)

//@ func (*ByteBuffer).Save
//@   prop C09
//@   requires bbInv(b)
//@   let k = max(0, min(n, b.ri - b.si))
//@   ensures [inv] bbInv(b) && b.si == old(b.si) + k && b.ri == old(b.ri) && b.wi == old(b.wi)
//@   ensures [slot] k > 0 ==> slot.Index == old(b.si) && slot.Length == k
//@   ensures [slot] k == 0 ==> slot.Index == 0 && slot.Length == 0
//@   modifies b.si

//@ func (*ByteBuffer).Saved
//@   prop C09
//@   requires bbInv(b)
//@   ensures [window] alias(result, b.data[0:b.si])
//@   modifies nothing

//@ func (*ByteBuffer).SavedSlot
//@   prop C09
//@   requires bbInv(b)
//@   requires 0 <= slot.Index && 0 <= slot.Length && slot.Index <= b.si && slot.Length <= b.si - slot.Index
//@   ensures [window] alias(result, b.data[slot.Index : slot.Index+slot.Length])
//@   modifies nothing

//@ func (*ByteBuffer).Discard
//@   prop C09
//@   requires bbInv(b)
//@   requires slot.Length <= 0 || (0 <= slot.Index && slot.Index <= b.si && slot.Length <= b.si - slot.Index)
//@   let k = max(0, slot.Length)
//@   ensures [inv] bbInv(b) && discarded == k
//@   ensures [marks] b.si == old(b.si) - k && b.ri == old(b.ri) - k && b.wi == old(b.wi) - k
//@   ensures [same-array] ptr(b.data) == old(ptr(b.data)) && cap(b.data) == old(cap(b.data))
//@   ensures [before] k > 0 ==> forall j :: 0 <= j && j < slot.Index ==> b.data[j] == old(b.data[j])
//@   ensures [after] k > 0 ==> forall j :: slot.Index <= j && j < b.wi ==> b.data[j] == old(b.data[j+k])
//@   ensures [noop] k == 0 ==> forall j :: 0 <= j && j < b.wi ==> b.data[j] == old(b.data[j])
//@   modifies b.si, b.ri, b.wi, b.data, memcap(b.data)

//@ func (*ByteBuffer).DiscardAll
//@   prop C09
//@   requires bbInv(b)
//@   ensures [inv] bbInv(b) && b.si == 0 && b.ri == old(b.ri - b.si) && b.wi == old(b.wi - b.si)
//@   ensures [shift] forall j :: 0 <= j && j < b.wi ==> b.data[j] == old(b.data[j+b.si])
//@   modifies b.si, b.ri, b.wi, b.data, memcap(b.data)

//@ func (*ByteBuffer).Reset
//@   prop C09
//@   requires bbInv(b)
//@   ensures [inv] bbInv(b) && b.si == 0 && b.ri == 0 && b.wi == 0
//@   modifies b.si, b.ri, b.wi, b.data

//@ func (*ByteBuffer).Read
//@   prop C09
//@   requires bbInv(b)
//@   requires disjoint(dst, b.data[0:cap(b.data)])
//@   let k = min(len(dst), b.ri - b.si)
//@   ensures [inv] bbInv(b)
//@   ensures [empty-dst] len(dst) == 0 ==> result0 == 0 && result1 == nil && b.ri == old(b.ri) && b.wi == old(b.wi)
//@   ensures [count] len(dst) > 0 && result1 == nil ==> result0 == k && b.si == old(b.si) && b.ri == old(b.ri) - k && b.wi == old(b.wi) - k
//@   ensures [bytes] len(dst) > 0 && result1 == nil ==> forall j :: 0 <= j && j < k ==> dst[j] == old(b.data[b.si+j])
//@   ensures [rest] len(dst) > 0 && result1 == nil ==> forall j :: b.si <= j && j < b.wi ==> b.data[j] == old(b.data[j+k])
//@   ensures [saved] forall j :: 0 <= j && j < b.si ==> b.data[j] == old(b.data[j])
//@   ensures [err] result1 != nil ==> result0 == 0 && b.ri == old(b.ri) && b.wi == old(b.wi) && b.si == old(b.si)
//@   modifies b.ri, b.wi, b.data, memcap(b.data), mem(dst)

//@ func (*ByteBuffer).UnreadByte
//@   prop C09
//@   requires bbInv(b)
//@   ensures [inv] bbInv(b) && b.si == old(b.si) && b.ri == old(b.ri)
//@   ensures [shrink] result == nil ==> b.wi == old(b.wi) - 1
//@   ensures [shrink] result != nil ==> b.wi == old(b.wi)
//@   modifies b.wi, b.data

//@ func (*ByteBuffer).Write
//@   prop C09
//@   ensures [stable] len(bb) <= old(cap(b.data) - b.wi) ==> ptr(b.data) == old(ptr(b.data)) && cap(b.data) == old(cap(b.data))
//@   ensures [where] (ptr(b.data) == old(ptr(b.data)) && cap(b.data) == old(cap(b.data))) || fresh(b.data)
//@   requires bbInv(b)
//@   requires cap(b.data) <= 1<<46 && len(bb) <= 1<<46
//@   ensures [inv] bbInv(b) && result0 == len(bb) && result1 == nil
//@   ensures [marks] b.si == old(b.si) && b.ri == old(b.ri) && b.wi == old(b.wi) + len(bb)
//@   ensures [kept] forall j :: 0 <= j && j < old(b.wi) ==> b.data[j] == old(b.data[j])
//@   ensures [appended] forall j :: 0 <= j && j < len(bb) ==> b.data[old(b.wi)+j] == old(bb[j])
//@   modifies b.wi, b.data, memcap(b.data)

//@ func (*ByteBuffer).WriteByte
//@   prop C09
//@   ensures [where] (ptr(b.data) == old(ptr(b.data)) && cap(b.data) == old(cap(b.data))) || fresh(b.data)
//@   requires bbInv(b)
//@   requires cap(b.data) <= 1<<46
//@   ensures [inv] bbInv(b) && result == nil
//@   ensures [marks] b.si == old(b.si) && b.ri == old(b.ri) && b.wi == old(b.wi) + 1
//@   ensures [kept] forall j :: 0 <= j && j < old(b.wi) ==> b.data[j] == old(b.data[j])
//@   ensures [appended] b.data[old(b.wi)] == bb
//@   modifies b.wi, b.data, memcap(b.data)

//@ func (*ByteBuffer).WriteString
//@   prop C09
//@   ensures [where] (ptr(b.data) == old(ptr(b.data)) && cap(b.data) == old(cap(b.data))) || fresh(b.data)
//@   requires bbInv(b)
//@   requires cap(b.data) <= 1<<46 && len(s) <= 1<<46
//@   ensures [inv] bbInv(b) && result0 == len(s) && result1 == nil
//@   ensures [marks] b.si == old(b.si) && b.ri == old(b.ri) && b.wi == old(b.wi) + len(s)
//@   ensures [kept] forall j :: 0 <= j && j < old(b.wi) ==> b.data[j] == old(b.data[j])
//@   modifies b.wi, b.data, memcap(b.data)

//@ func (*ByteBuffer).PrepareRead
//@   prop C09, C19
//@   requires bbInv(b)
//@   ensures [inv] bbInv(b) && b.si == old(b.si) && b.wi == old(b.wi) && b.ri >= old(b.ri)
//@   ensures [ok] err == nil && n >= 0 ==> b.ri - b.si >= n
//@   ensures [needmore] err != nil ==> err == sonicerrors.ErrNeedMore && b.ri == old(b.ri)
//@   ensures [exact] err == nil && n > old(b.ri - b.si) ==> b.ri - b.si == n
//@   ensures [exact] n <= old(b.ri - b.si) && n >= -(1<<62) ==> b.ri == old(b.ri) && err == nil
//@   ensures [iff] 0 <= n && n <= old(b.wi - b.si) ==> err == nil
//@   modifies b.ri

//@ func (*ByteBuffer).ClaimFixed
//@   prop C09
//@   requires bbInv(b)
//@   ensures [inv] bbInv(b) && b.si == old(b.si) && b.ri == old(b.ri)
//@   ensures [granted] 0 <= n && n <= old(cap(b.data) - b.wi) ==> b.wi == old(b.wi) + n && alias(claimed, b.data[old(b.wi):b.wi])
//@   ensures [refused] (n < 0 || n > old(cap(b.data) - b.wi)) ==> b.wi == old(b.wi) && len(claimed) == 0
//@   ensures [same-array] ptr(b.data) == old(ptr(b.data)) && cap(b.data) == old(cap(b.data))
//@   modifies b.wi, b.data

//@ func (*ByteBuffer).ShrinkBy
//@   prop C09
//@   requires bbInv(b)
//@   let k = max(0, min(n, b.wi - b.ri))
//@   ensures [inv] bbInv(b) && b.si == old(b.si) && b.ri == old(b.ri) && b.wi == old(b.wi) - k && result == k
//@   ensures [same-array] ptr(b.data) == old(ptr(b.data)) && cap(b.data) == old(cap(b.data))
//@   modifies b.wi, b.data

//@ func (*ByteBuffer).ShrinkTo
//@   prop C09
//@   requires bbInv(b)
//@   ensures [inv] bbInv(b) && b.si == old(b.si) && b.ri == old(b.ri)
//@   ensures [to] 0 <= n && n <= old(b.wi - b.ri) ==> b.wi - b.ri == n && shrunkBy == old(b.wi - b.ri) - n
//@   ensures [to] n > old(b.wi - b.ri) ==> b.wi == old(b.wi) && shrunkBy == 0
//@   ensures [to] n < 0 && n > -(1<<62) ==> b.wi == b.ri
//@   modifies b.wi, b.data

// --- environment contracts (assumptions on user code, listed in the evidence) ---

//@ func iface:io.Reader.Read
//@   trusted
//@   ensures 0 <= n && n <= len(p)
//@   modifies mem(p)

//@ func iface:io.Writer.Write
//@   trusted
//@   ensures 0 <= n && n <= len(p)
//@   ensures err == nil ==> n == len(p)
//@   modifies nothing

//@ func fnparam:(*ByteBuffer).Claim.fn
//@   trusted
//@   modifies mem(b)

//@ func (*ByteBuffer).ReadByte
//@   prop C09
//@   requires bbInv(b)
//@   ensures [inv] bbInv(b) && b.si == old(b.si)
//@   ensures [ok] result1 == nil && old(b.ri - b.si) > 0 ==> result0 == old(b.data[b.si]) && b.ri == old(b.ri) - 1 && b.wi == old(b.wi) - 1
//@   ensures [err] result1 != nil ==> b.ri == old(b.ri) && b.wi == old(b.wi)
//@   ensures [saved] forall j :: 0 <= j && j < b.si ==> b.data[j] == old(b.data[j])
//@   ensures [rest] result1 == nil && old(b.ri - b.si) > 0 ==> forall j :: b.si <= j && j < b.wi ==> b.data[j] == old(b.data[j+1])

//@ func (*ByteBuffer).ReadFrom
//@   prop C09, C19
//@   requires bbInv(b) && r != nil
//@   ensures [inv] bbInv(b) && b.si == old(b.si) && b.ri == old(b.ri)
//@   ensures [grow] result1 == nil ==> b.wi == old(b.wi) + int(result0) && 0 <= result0 && int(result0) <= old(cap(b.data) - b.wi)
//@   ensures [err] result1 != nil ==> b.wi == old(b.wi)
//@   ensures [kept] forall j :: 0 <= j && j < old(b.wi) ==> b.data[j] == old(b.data[j])

//@ func (*ByteBuffer).Claim
//@   prop C09
//@   requires bbInv(b) && fn != nil
//@   ensures [inv] bbInv(b) && b.si == old(b.si) && b.ri == old(b.ri) && b.wi >= old(b.wi) && b.wi <= old(cap(b.data))
//@   ensures [kept] forall j :: 0 <= j && j < old(b.wi) ==> b.data[j] == old(b.data[j])

//@ func (*ByteBuffer).WriteTo
//@   prop C09, C19
//@   requires bbInv(b) && w != nil
//@   loop 1 invariant bbInv(b) && 0 <= writtenBytes && writtenBytes <= b.ri - b.si
//@   loop 1 invariant b.si == old(b.si) && b.ri == old(b.ri) && b.wi == old(b.wi)
//@   loop 1 invariant ptr(b.data) == old(ptr(b.data)) && cap(b.data) == old(cap(b.data))
//@   loop 1 invariant forall j :: 0 <= j && j < b.wi ==> b.data[j] == old(b.data[j])
//@   // every round hands the writer the unsent rest and (by the writer's contract) finishes it or fails
//@   loop 1 decreases b.ri - b.si - writtenBytes
//@   ensures [inv] bbInv(b) && b.si == old(b.si)
//@   ensures [consumed] 0 <= result0 && int(result0) <= old(b.ri - b.si) && b.ri == old(b.ri) - int(result0) && b.wi == old(b.wi) - int(result0)
//@   ensures [all] result1 == nil ==> int(result0) == old(b.ri - b.si)
//@   ensures [saved] forall j :: 0 <= j && j < b.si ==> b.data[j] == old(b.data[j])
//@   ensures [rest] forall j :: b.si <= j && j < b.wi ==> b.data[j] == old(b.data[j+int(result0)])
//@   ensures [storage] ptr(b.data) == old(ptr(b.data)) && cap(b.data) == old(cap(b.data))
//@   modifies fields(b), memcap(b.data)

// Completion closures of the asynchronous transfers (C02, C19, C17): the bytes the transport
// reports are accounted in the buffer exactly once, then the caller's callback runs once.
//@ func fnparam:(*ByteBuffer).*.cb
//@   trusted

//@ func (*ByteBuffer).AsyncReadFrom$1
//@   prop C02, C09, C19
//@   requires b != nil && bbInv(b) && cb != nil && (err == nil ==> 0 <= n && n <= cap(b.data) - b.wi)
//@   // a successful read of n bytes extends the write area by exactly n; an error changes nothing
//@   assert call cb: arg0 == err && arg1 == n && bbInv(b) && b.si == old(b.si) && b.ri == old(b.ri) &&
//@          b.wi == old(b.wi) + ((err == nil) ? n : 0)
//@   consumes cb

//@ func (*ByteBuffer).AsyncWriteTo$1
//@   prop C02, C09, C19, C17
//@   requires b != nil && bbInv(b) && cb != nil
//@   // the bytes written are consumed exactly once, before the callback runs; an error consumes nothing
//@   assert call cb: arg0 == err && arg1 == n && bbInv(b) && b.si == old(b.si) &&
//@          b.ri == old(b.ri) - ((err == nil) ? max(0, min(n, old(b.ri - b.si))) : 0)
//@   consumes cb
