//go:build verif

package frame

import "github.com/talostrading/sonic"

// The repository instantiates CodecConn over the length-prefixed codec only in tests. These
// references make the instantiation CodecConn[[]byte, []byte] part of the program loaded by
// the verifier (build tag verif); they add no behaviour.
var (
	_ = (*sonic.CodecConn[[]byte, []byte]).ReadNext
	_ = (*sonic.CodecConn[[]byte, []byte]).WriteNext
	_ = (*sonic.CodecConn[[]byte, []byte]).AsyncReadNext
	_ = (*sonic.CodecConn[[]byte, []byte]).AsyncWriteNext
)
