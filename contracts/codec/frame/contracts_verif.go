//go:build verif

package frame

// Contracts for the length-prefixed frame codec (property C19).

//@ pred cInv(c *Codec) =
//@   c.src != nil && sonic.bbInv(c.src) &&
//@   (c.decodeReset ==> 0 <= c.decodeBytes && c.decodeBytes <= c.src.ri - c.src.si)

//@ func (*Codec).resetDecode
//@   prop C19
//@   requires cInv(c)
//@   let drop = c.decodeReset ? c.decodeBytes : 0
//@   ensures [inv] cInv(c) && !c.decodeReset
//@   ensures [consumed] c.src.si == old(c.src.si) && c.src.ri == old(c.src.ri) - drop && c.src.wi == old(c.src.wi) - drop
//@   ensures [same-array] ptr(c.src.data) == old(ptr(c.src.data)) && cap(c.src.data) == old(cap(c.src.data))
//@   ensures [stream] forall j :: c.src.si <= j && j < c.src.wi ==> c.src.data[j] == old(c.src.data[j + drop])
//@   ensures [saved] forall j :: 0 <= j && j < c.src.si ==> c.src.data[j] == old(c.src.data[j])

//@ func (*Codec).Decode
//@   prop C19
//@   requires cInv(c) && src == c.src && cap(src.data) <= 1<<46
//@   let drop  = c.decodeReset ? c.decodeBytes : 0
//@   let k     = src.si + drop
//@   let avail = src.wi - src.si - drop
//@   let plen  = int(src.data[k])<<24 + int(src.data[k+1])<<16 + int(src.data[k+2])<<8 + int(src.data[k+3])
//@   // a declared length above the limit is rejected before any buffering
//@   assert call Reserve: 0 <= arg1 && arg1 <= HeaderLen + MaxPayloadLength
//@   ensures [inv] cInv(c)
//@   ensures [short] avail < 4 ==> len(result0) == 0 && result1 == sonicerrors.ErrNeedMore && !c.decodeReset
//@   ensures [over-limit] avail >= 4 && plen > MaxPayloadLength ==> len(result0) == 0 && result1 == ErrPayloadLengthOverflow && !c.decodeReset
//@   ensures [incomplete] avail >= 4 && plen <= MaxPayloadLength && avail < 4 + plen ==>
//@           len(result0) == 0 && result1 == sonicerrors.ErrNeedMore && !c.decodeReset
//@   ensures [no-loss] result1 != nil ==> src.si == old(src.si) && src.wi == old(src.wi) - drop &&
//@           (forall j :: 0 <= j && j < avail ==> src.data[src.si + j] == old(src.data[k + j]))
//@   ensures [payload] avail >= 4 && plen <= MaxPayloadLength && avail >= 4 + plen ==>
//@           result1 == nil && len(result0) == plen && alias(result0, src.data[src.si : src.si + plen]) &&
//@           c.decodeReset && c.decodeBytes == plen &&
//@           src.si == old(src.si) && src.wi == old(src.wi) - drop - 4 &&
//@           (forall j :: 0 <= j && j < avail - 4 ==> src.data[src.si + j] == old(src.data[k + 4 + j]))

//@ func (*Codec).Encode
//@   prop C19
//@   implements iface:github.com/talostrading/sonic.Encoder.Encode
//@   requires dst != nil && sonic.bbInv(dst) && cap(dst.data) <= 1<<46 && disjoint(frame, dst.data[0:cap(dst.data)])
//@   inline call ByteBuffer).Claim
//@   ensures [inv] sonic.bbInv(dst) && dst.si == old(dst.si) && dst.ri == old(dst.ri)
//@   ensures [too-long] len(frame) > MaxPayloadLength ==> result == ErrPayloadLengthOverflow && dst.wi == old(dst.wi)
//@   ensures [appended] len(frame) <= MaxPayloadLength ==> result == nil && dst.wi == old(dst.wi) + 4 + len(frame)
//@   ensures [prefix] len(frame) <= MaxPayloadLength ==>
//@           int(dst.data[old(dst.wi)])<<24 + int(dst.data[old(dst.wi)+1])<<16 + int(dst.data[old(dst.wi)+2])<<8 + int(dst.data[old(dst.wi)+3]) == len(frame)
//@   ensures [body] len(frame) <= MaxPayloadLength ==>
//@           (forall j :: 0 <= j && j < len(frame) ==> dst.data[old(dst.wi) + 4 + j] == old(frame[j]))
//@   ensures [kept] forall j :: 0 <= j && j < old(dst.wi) ==> dst.data[j] == old(dst.data[j])
