//go:build verif

package websocket

// Contracts for Frame construction and masking (property C16; used by C08, C15, C06).

//@ func ext:crypto/rand.Read
//@   trusted
//@   modifies mem(b)

//@ func GenMask
//@   prop C16
//@   modifies mem(b)

// Mask XORs b with the 4-byte key, position by position.
//@ func Mask
//@   prop C16
//@   requires len(mask) >= 4 && disjoint(mask, b)
//@   loop 1 invariant -1 <= rangeindex && rangeindex < max(len(b), 1) && unchanged_except(b)
//@   loop 1 invariant forall k :: 0 <= k && k < len(b) ==> b[k] == ((k <= rangeindex) ? old(b[k]) ^ mask[k&3] : old(b[k]))
//@   ensures [xor] forall k :: 0 <= k && k < len(b) ==> b[k] == old(b[k]) ^ mask[k&3]
//@   modifies mem(b)

// Declared payload length of a frame (7-bit, 16-bit or 64-bit encoding).
//@ pred declLen(s []byte) =
//@   (((s[1] & 127) == 127) ? (int(s[2])<<56 + int(s[3])<<48 + int(s[4])<<40 + int(s[5])<<32 + int(s[6])<<24 + int(s[7])<<16 + int(s[8])<<8 + int(s[9])) :
//@    (((s[1] & 127) == 126) ? (int(s[2])<<8 + int(s[3])) : int(s[1] & 127)))

// PayloadLength decodes the declared length (big-endian, widest first).
//@ func (Frame).PayloadLength
//@   prop C07, C15, C16, C06
//@   arith bv
//@   requires len(f) >= 2 && len(f) >= 2 + (((f[1] & 127) == 127) ? 8 : (((f[1] & 127) == 126) ? 2 : 0))
//@   ensures [decoded] result == declLen(f)
//@   modifies nothing

//@ func (*Frame).setPayloadLength
//@   prop C16
//@   arith bv
//@   requires len(*f) >= 10 && 0 <= n
//@   let masked = (*f)[1] & 128
//@   ensures [shape] len(*f) == old(len(*f)) && ptr(*f) == old(ptr(*f)) && cap(*f) == old(cap(*f)) && result == f
//@   ensures [mask-bit] (*f)[1] & 128 == masked && (*f)[0] == old((*f)[0])
//@   // shortest legal encoding of the length
//@   ensures [short] n <= 125 ==> int((*f)[1] & 127) == n
//@   ensures [medium] 125 < n && n <= 65535 ==> (*f)[1] & 127 == 126 && int((*f)[2])<<8 + int((*f)[3]) == n
//@   ensures [long] n > 65535 ==> (*f)[1] & 127 == 127 &&
//@           int((*f)[2])<<56 + int((*f)[3])<<48 + int((*f)[4])<<40 + int((*f)[5])<<32 + int((*f)[6])<<24 + int((*f)[7])<<16 + int((*f)[8])<<8 + int((*f)[9]) == n
//@   ensures [rest] forall k :: 10 <= k && k < cap(*f) ==> (*f)[k] == old((*f)[k])
//@   modifies mem((*f)[0:10])

//@ func (*Frame).SetPayload
//@   prop C16
//@   requires len(*f) >= 2 && cap(*f) <= 1<<46 && len(b) <= 1<<40 && disjoint(b, (*f)[0:cap(*f)]) && heapslice(*f)
//@   let masked = (*f)[1] & 128 != 0
//@   let ext = (len(b) > 65535) ? 8 : ((len(b) > 125) ? 2 : 0)
//@   let off = 2 + ext + (masked ? 4 : 0)
//@   // header + declared length, nothing trailing from an earlier, longer use of the frame
//@   ensures [exact-length] len(*f) == off + len(b) && result == f && heapslice(*f) && cap(*f) <= 1<<46
//@   ensures [payload] forall k :: 0 <= k && k < len(b) ==> (*f)[off + k] == old(b[k])
//@   ensures [first-byte] (*f)[0] == old((*f)[0]) && ((*f)[1] & 128 != 0) == masked
//@   // read back from the header: the payload starts where the length code says, and the declared length is len(b)
//@   ensures [offset] 2 + ((((*f)[1] & 127) == 127) ? 8 : ((((*f)[1] & 127) == 126) ? 2 : 0)) + ((((*f)[1] & 128) != 0) ? 4 : 0) == off
//@   ensures [declared] declLen(*f) == len(b) && frameWF(*f)
//@   // writes stay inside the frame's old backing array (or go to a newly allocated one)
//@   ensures [frame-only] unchanged_except(old((*f)[0:cap(*f)]))
//@   // the frame keeps its backing array or moves to a newly allocated one
//@   ensures [storage] (ptr(*f) == old(ptr(*f)) && cap(*f) == old(cap(*f))) || fresh((*f)[0:cap(*f)])
//@   modifies *f, memcap(*f)
//@   ensures [short] len(b) <= 125 ==> int((*f)[1] & 127) == len(b)
//@   ensures [medium] 125 < len(b) && len(b) <= 65535 ==> (*f)[1] & 127 == 126 && int((*f)[2])<<8 + int((*f)[3]) == len(b)
//@   ensures [long] len(b) > 65535 ==> (*f)[1] & 127 == 127 &&
//@           int((*f)[2])<<56 + int((*f)[3])<<48 + int((*f)[4])<<40 + int((*f)[5])<<32 + int((*f)[6])<<24 + int((*f)[7])<<16 + int((*f)[8])<<8 + int((*f)[9]) == len(b)

// A frame whose length equals header + declared payload length (declared length < 2^40).
//@ pred frameWF(s []byte) =
//@   len(s) >= 2 && len(s) >= 2 + (((s[1] & 127) == 127) ? 8 : (((s[1] & 127) == 126) ? 2 : 0)) &&
//@   len(s) == 2 + (((s[1] & 127) == 127) ? 8 : (((s[1] & 127) == 126) ? 2 : 0)) + (((s[1] & 128) != 0) ? 4 : 0) +
//@     (((s[1] & 127) == 127) ? (int(s[2])<<56 + int(s[3])<<48 + int(s[4])<<40 + int(s[5])<<32 + int(s[6])<<24 + int(s[7])<<16 + int(s[8])<<8 + int(s[9])) :
//@      (((s[1] & 127) == 126) ? (int(s[2])<<8 + int(s[3])) : int(s[1] & 127))) &&
//@   (((s[1] & 127) == 127) ==> s[2] == 0 && s[3] == 0 && s[4] < 128)

// MaskPayload: for a frame laid out with the mask bit set, XOR the payload with a fresh key
// stored in the 4 bytes before it; un-masking with that key gives back the caller's bytes.
//@ func (*Frame).MaskPayload
//@   prop C16
//@   requires frameWF(*f) && (*f)[1] & 128 != 0
//@   let ext = (((*f)[1] & 127) == 127) ? 8 : ((((*f)[1] & 127) == 126) ? 2 : 0)
//@   let off = 2 + ext + 4
//@   ensures [shape] len(*f) == old(len(*f)) && ptr(*f) == old(ptr(*f)) && frameWF(*f)
//@   ensures [header] forall k :: 0 <= k && k < 2 + ext ==> (*f)[k] == old((*f)[k])
//@   ensures [masked] forall k :: 0 <= k && k < len(*f) - off ==> (*f)[off + k] == old((*f)[off + k]) ^ (*f)[off - 4 + (k & 3)]
//@   modifies mem(*f)

//@ globalinv zeroBytes: [C16] forall k :: 0 <= k && k < 14 ==> zeroBytes[k] == 0

//@ func NewFrame
//@   prop C16
//@   ensures [fresh] len(result) == 14 && heapslice(result) && cap(result) <= 1<<46 &&
//@           (forall k :: 0 <= k && k < 14 ==> result[k] == 0)

// Frame.WriteTo hands the writer exactly the frame's bytes, in order, until all are written.
//@ func (Frame).WriteTo
//@   prop C16
//@   requires w != nil
//@   loop 1 invariant 0 <= written && written <= len(f)
//@   loop 1 decreases len(f) - written
//@   assert call io.Writer.Write: alias(arg1, f[written:])
//@   ensures [all] result1 == nil ==> int(result0) == len(f)
