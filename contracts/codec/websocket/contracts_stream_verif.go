//go:build verif

package websocket

// Contracts for the WebSocket stream: frames queued for writing (C16), the RFC 6455 state
// machine (C08) and protocol violations (C15).

//@ immutable [C08,C15,C16] Stream.role Stream.src Stream.dst constructors NewWebsocketStream

// Every frame the pool hands out or takes back has a header, dynamic storage and a sane size.
//@ pred poolFrame(f *Frame) = f != nil && len(*f) >= 2 && heapslice(*f) && cap(*f) <= 1<<46

// A frame ready for the wire: header + declared length, masked iff we are a client.
//@ pred wireFrame(s *Stream, f *Frame) =
//@   poolFrame(f) && frameWF(*f) && ((s.role == RoleClient) == (((*f)[1] & 128) != 0))

//@ pred qInv(s *Stream) =
//@   (forall j :: 0 <= j && j < len(s.pendingFrames) ==> s.pendingFrames[j] != nil)

// Everything queued is ready for the wire, lives in its own storage and apart from the write buffer.
//@ pred wInv(s *Stream) =
//@   s.codecConn != nil && sonic.ccInvS(s.codecConn) &&
//@   (forall j :: 0 <= j && j < len(s.pendingFrames) ==> poolFrame(s.pendingFrames[j])) &&
//@   (forall j :: 0 <= j && j < len(s.pendingFrames) ==> frameWF(*s.pendingFrames[j])) &&
//@   (forall j :: 0 <= j && j < len(s.pendingFrames) ==> ((s.role == RoleClient) == (((*s.pendingFrames[j])[1] & 128) != 0))) &&
//@   (forall j :: 0 <= j && j < len(s.pendingFrames) ==>
//@        disjoint((*s.pendingFrames[j])[0:cap(*s.pendingFrames[j])], s.codecConn.dst.data[0:cap(s.codecConn.dst.data)])) &&
//@   (forall j, k :: 0 <= j && j < k && k < len(s.pendingFrames) ==>
//@        disjoint((*s.pendingFrames[j])[0:cap(*s.pendingFrames[j])], (*s.pendingFrames[k])[0:cap(*s.pendingFrames[k])]))

// f shares no storage with the write buffer or with the first n queued frames.
//@ pred apart2(s *Stream, f *Frame, n int) =
//@   disjoint((*f)[0:cap(*f)], s.codecConn.dst.data[0:cap(s.codecConn.dst.data)]) &&
//@   (forall j :: 0 <= j && j < n ==> f != s.pendingFrames[j]) &&
//@   (forall j :: 0 <= j && j < n ==> disjoint((*f)[0:cap(*f)], (*s.pendingFrames[j])[0:cap(*s.pendingFrames[j])]))

// A frame that shares no storage with the write buffer or with anything queued.
//@ pred apart(s *Stream, f *Frame) =
//@   disjoint((*f)[0:cap(*f)], s.codecConn.dst.data[0:cap(s.codecConn.dst.data)]) &&
//@   (forall j :: 0 <= j && j < len(s.pendingFrames) ==> f != s.pendingFrames[j]) &&
//@   (forall j :: 0 <= j && j < len(s.pendingFrames) ==> disjoint((*f)[0:cap(*f)], (*s.pendingFrames[j])[0:cap(*s.pendingFrames[j])]))

//@ func ext:sync.(*Pool).Get
//@   trusted
//@   modifies nothing
//@ func ext:sync.(*Pool).Put
//@   trusted
//@   modifies nothing

// Frames come from the pool (or its New function); the pool only ever holds frames that
// releaseFrame put there, which satisfy poolFrame (rely on sync.Pool).
//@ func (*Stream).AcquireFrame
//@   prop C16
//@   assume-typeassert Frame
//@   // sync.Pool hands out a frame nobody else references: its storage aliases nothing the caller holds
//@   assume def f: poolFrame(f) && (*f)[0] == 0 && (*f)[1] == 0 && fresh(*f) && freshobj(f)
//@   ensures [frame] poolFrame(result) && (*result)[0] == 0 && fresh(*result) && freshobj(result)
//@   ensures [frame-only] unchanged_except(*result)
//@   ensures [client-mask] (*result)[1] == ((s.role == RoleClient) ? 128 : 0)
//@   modifies nothing

//@ func (*Stream).releaseFrame
//@   prop C16
//@   requires poolFrame(f)
//@   // back to the pool with a zeroed header, whatever it carried
//@   ensures [zeroed] poolFrame(f) && (*f)[0] == 0 && (*f)[1] == 0
//@   modifies mem(*f)

// verifyFrame: RSV bits must be zero; a client accepts only unmasked frames, a server only masked ones.
//@ func (*Stream).verifyFrame
//@   prop C15
//@   requires len(f) >= 2
//@   ensures [iff] (result == nil) == (f[0] & 112 == 0 && ((s.role == RoleClient) ==> f[1] & 128 == 0) && ((s.role == RoleServer) ==> f[1] & 128 != 0))
//@   ensures [rsv] f[0] & 112 != 0 ==> result == ErrNonZeroReservedBits
//@   ensures [masked-from-server] f[0] & 112 == 0 && s.role == RoleClient && f[1] & 128 != 0 ==> result == ErrMaskedFramesFromServer
//@   modifies nothing

//@ func (*Stream).handleDataFrame
//@   prop C15
//@   requires len(f) >= 2 && frameWF(f)
//@   // opcodes 3-7 and 11-15 are reserved
//@   ensures [reserved] (f[0] & 15 > 2 && f[0] & 15 != 8 && f[0] & 15 != 9 && f[0] & 15 != 10) ==> result == ErrReservedOpcode
//@   ensures [data] f[0] & 15 <= 2 && !s.validateUTF8 ==> result == nil
//@   modifies nothing

//@ func ext:unicode/utf8.Valid
//@   trusted
//@   ensures len(p) == 0 ==> result
//@   modifies nothing

// A frame whose storage holds at least the header and the payload it declares (it may be longer:
// a pooled frame keeps the length of its previous use until SetPayload or prepareWrite cut it).
//@ pred hdrFits(s []byte) =
//@   len(s) >= 2 && len(s) >= 2 + (((s[1] & 127) == 127) ? 8 : (((s[1] & 127) == 126) ? 2 : 0)) &&
//@   (((s[1] & 127) == 127) ==> s[2] == 0 && s[3] == 0 && s[4] < 128) &&
//@   len(s) >= 2 + (((s[1] & 127) == 127) ? 8 : (((s[1] & 127) == 126) ? 2 : 0)) + (((s[1] & 128) != 0) ? 4 : 0) + declLen(s)

// prepareWrite: cuts the frame to header + declared payload, masks the payload (client) and
// appends the frame at the END of the queue.
//@ func (*Stream).prepareWrite
//@   prop C16, C08
//@   requires qInv(s) && poolFrame(f) && hdrFits(*f) && ((s.role == RoleClient) == ((*f)[1] & 128 != 0))
//@   let ext = (((*f)[1] & 127) == 127) ? 8 : ((((*f)[1] & 127) == 126) ? 2 : 0)
//@   let off = 2 + ext + ((((*f)[1] & 128) != 0) ? 4 : 0)
//@   let total = off + declLen(*f)
//@   // masking f leaves the frames already queued as they were
//@   ensures [queued] len(s.pendingFrames) == old(len(s.pendingFrames)) + 1 && s.pendingFrames[old(len(s.pendingFrames))] == f
//@   ensures [order] forall j :: 0 <= j && j < old(len(s.pendingFrames)) ==> s.pendingFrames[j] == old(s.pendingFrames[j])
//@   // exactly header + declared payload will be written: nothing trailing from an earlier use
//@   ensures [exact-length] len(*f) == total
//@   ensures [wire] wireFrame(s, f) && (*f)[0] == old((*f)[0]) && (*f)[1] == old((*f)[1]) && ptr(*f) == old(ptr(*f))
//@   // un-masking the queued payload with the key stored in front of it gives the payload handed in
//@   ensures [unmask] s.role == RoleClient ==> (forall k :: 0 <= k && k < total - off ==>
//@           (*f)[off + k] == old((*f)[off + k]) ^ (*f)[off - 4 + (k & 3)])
//@   ensures [server-plain] s.role != RoleClient ==> (forall k :: 0 <= k && k < total ==> (*f)[k] == old((*f)[k]))
//@   ensures [frame-only] unchanged_except(old(*f))
//@   ensures [inv] qInv(s) && s.state == old(s.state)
//@   ensures [queue-storage] (ptr(s.pendingFrames) == old(ptr(s.pendingFrames)) && cap(s.pendingFrames) == old(cap(s.pendingFrames))) || fresh(s.pendingFrames)
//@   modifies *f, mem(*f), s.pendingFrames, memcap(s.pendingFrames)

// Close codes travel big-endian in the first two payload bytes.
//@ func EncodeCloseCode
//@   prop C08
//@   ensures [two-bytes] len(result) == 2 && fresh(result) && int(result[0])*256 + int(result[1]) == int(cc)
//@   modifies nothing

//@ func EncodeCloseFramePayload
//@   prop C08
//@   requires len(reason) <= 123
//@   ensures [code-first] len(result) == 2 + len(reason) && fresh(result) && int(result[0])*256 + int(result[1]) == int(cc)
//@   modifies nothing

// prepareClose queues exactly one Close frame (FIN, opcode 8) carrying the given payload.
//@ func (*Stream).prepareClose
//@   prop C08, C16
//@   requires qInv(s) && len(payload) <= 125
//@   ensures [one-close] len(s.pendingFrames) == old(len(s.pendingFrames)) + 1 &&
//@           (*s.pendingFrames[old(len(s.pendingFrames))])[0] == 136 &&
//@           int((*s.pendingFrames[old(len(s.pendingFrames))])[1] & 127) == len(payload) &&
//@           wireFrame(s, s.pendingFrames[old(len(s.pendingFrames))])
//@   ensures [order] forall j :: 0 <= j && j < old(len(s.pendingFrames)) ==> s.pendingFrames[j] == old(s.pendingFrames[j])
//@   ensures [inv] qInv(s) && s.state == old(s.state)
//@   ensures [frame-only] unchanged_except(*s.pendingFrames[old(len(s.pendingFrames))])
//@   ensures [new-storage] fresh(*s.pendingFrames[old(len(s.pendingFrames))])
//@   ensures [queue-storage] (ptr(s.pendingFrames) == old(ptr(s.pendingFrames)) && cap(s.pendingFrames) == old(cap(s.pendingFrames))) || fresh(s.pendingFrames)
//@   modifies s.pendingFrames, memcap(s.pendingFrames)
//@   // on the wire: payload XOR masking key for a client, payload itself for a server
//@   ensures [payload-client] s.role == RoleClient ==> (forall k :: 0 <= k && k < len(payload) ==>
//@           (*s.pendingFrames[old(len(s.pendingFrames))])[6 + k] == old(payload[k]) ^ (*s.pendingFrames[old(len(s.pendingFrames))])[2 + (k & 3)])
//@   ensures [payload-server] s.role != RoleClient ==> (forall k :: 0 <= k && k < len(payload) ==>
//@           (*s.pendingFrames[old(len(s.pendingFrames))])[2 + k] == old(payload[k]))

//@ func fnparam:(*Stream).*.controlCallback
//@   trusted
//@   // the application's control callback does not tear the stream down underneath the read in progress
//@   ensures s.codecConn == old(s.codecConn)

// The control-frame transition table of RFC 6455 (sections 5.5, 7), one step.
//@ func (*Stream).handleControlFrame
//@   prop C08, C15
//@   requires qInv(s) && len(f) >= 2 && frameWF(f) && (s.state == StateActive || s.state == StateClosedByUs)
//@   let op   = f[0] & 15
//@   let fin  = f[0] & 128 != 0
//@   let big  = declLen(f) > 125
//@   let plen = declLen(f)
//@   let n0   = len(s.pendingFrames)
//@   // violations: fragmented or oversized control frame
//@   ensures [fragmented] !fin ==> err == ErrInvalidControlFrame
//@   ensures [too-big] fin && big ==> err == ErrControlFrameTooBig
//@   ensures [violation-queues-nothing] err != nil ==> len(s.pendingFrames) == n0 && s.state == old(s.state)
//@   // Ping while open: exactly one Pong, same payload length, queued after everything already queued
//@   let isPing = fin && !big && op == 9 && old(s.state) == StateActive
//@   ensures [ping] isPing ==> err == nil && s.state == StateActive && len(s.pendingFrames) == n0 + 1
//@   ensures [ping-pong] isPing ==> (*s.pendingFrames[n0])[0] == 138
//@   ensures [ping-len] isPing ==> int((*s.pendingFrames[n0])[1] & 127) == plen
//@   ensures [ping-wire] isPing ==> wireFrame(s, s.pendingFrames[n0])
//@   ensures [ping-while-closing] fin && !big && op == 9 && old(s.state) != StateActive ==> err == nil && len(s.pendingFrames) == n0 && s.state == old(s.state)
//@   // Pongs are not answered
//@   ensures [pong] fin && !big && op == 10 ==> err == nil && len(s.pendingFrames) == n0 && s.state == old(s.state)
//@   // Close from the peer while open: exactly one Close in reply, reads end
//@   ensures [close] fin && !big && op == 8 && old(s.state) == StateActive ==> err == nil && s.state == StateClosedByPeer &&
//@           len(s.pendingFrames) == n0 + 1 && (*s.pendingFrames[n0])[0] == 136 && wireFrame(s, s.pendingFrames[n0])
//@   ensures [close-no-payload] fin && op == 8 && plen == 0 && old(s.state) == StateActive ==>
//@           int((*s.pendingFrames[n0])[1] & 127) == 2
//@   // ... echoing the peer's status code (1000 if it sent none); server role shown, the client form is the same bytes XOR key
//@   ensures [close-echo-server] fin && !big && op == 8 && old(s.state) == StateActive && s.role != RoleClient && plen == 0 ==>
//@           int((*s.pendingFrames[n0])[2])*256 + int((*s.pendingFrames[n0])[3]) == 1000
//@   ensures [close-one-byte] fin && op == 8 && plen == 1 && old(s.state) == StateActive && s.role != RoleClient ==>
//@           int((*s.pendingFrames[n0])[1] & 127) == 2 && int((*s.pendingFrames[n0])[2])*256 + int((*s.pendingFrames[n0])[3]) == 1002
//@   remember after call unicode/utf8.Valid: utf8ok = result
//@   let pl = Frame.Payload(f)
//@   let isClose = fin && !big && op == 8 && old(s.state) == StateActive && s.role != RoleClient
//@   let codeOK = ValidCloseCode(CloseCode(int(pl[0])*256 + int(pl[1])))
//@   ensures [close-bad-utf8] isClose && plen >= 2 && !utf8ok ==>
//@           int((*s.pendingFrames[n0])[1] & 127) == 2 && int((*s.pendingFrames[n0])[2])*256 + int((*s.pendingFrames[n0])[3]) == 1002
//@   ensures [close-bad-code] isClose && plen >= 2 && utf8ok && !codeOK ==>
//@           int((*s.pendingFrames[n0])[1] & 127) == 2 && int((*s.pendingFrames[n0])[2])*256 + int((*s.pendingFrames[n0])[3]) == 1002
//@   ensures [close-echo] isClose && plen >= 2 && utf8ok && codeOK ==>
//@           int((*s.pendingFrames[n0])[1] & 127) == plen && (forall k :: 0 <= k && k < plen ==> (*s.pendingFrames[n0])[2 + k] == old(pl[k]))
//@   // a Close carrying only a status code (empty reason, trivially valid UTF-8): echoed if the code is valid, 1002 otherwise
//@   ensures [close-code-only] isClose && plen == 2 && codeOK ==>
//@           int((*s.pendingFrames[n0])[1] & 127) == 2 && (*s.pendingFrames[n0])[2] == old(pl[0]) && (*s.pendingFrames[n0])[3] == old(pl[1])
//@   ensures [close-code-only-bad] isClose && plen == 2 && !codeOK ==>
//@           int((*s.pendingFrames[n0])[1] & 127) == 2 && int((*s.pendingFrames[n0])[2])*256 + int((*s.pendingFrames[n0])[3]) == 1002
//@   // Close answering ours: the handshake is complete, nothing more is sent
//@   ensures [close-ack] fin && !big && op == 8 && old(s.state) == StateClosedByUs ==> err == nil && s.state == StateCloseAcked && len(s.pendingFrames) == n0
//@   ensures [order] forall j :: 0 <= j && j < n0 ==> s.pendingFrames[j] == old(s.pendingFrames[j])
//@   ensures [inv] qInv(s)
//@   // replies are built in storage of their own: no byte that existed before is written (the frame just read stays as it was)
//@   ensures [reads-only] unchanged_except(f[0:0])
//@   ensures [queue-storage] (ptr(s.pendingFrames) == old(ptr(s.pendingFrames)) && cap(s.pendingFrames) == old(cap(s.pendingFrames))) || fresh(s.pendingFrames)
//@   modifies s.state, s.pendingFrames, memcap(s.pendingFrames)

// handleFrame: every framing violation is reported, closes the stream from our side and queues
// exactly one Close(1002) - unless our Close is already on its way, in which case nothing more
// may be queued (RFC 6455 5.5.1: no frames after a Close).
//@ func (*Stream).handleFrame
//@   prop C08, C15
//@   requires qInv(s) && len(f) >= 2 && frameWF(f) && (s.state == StateActive || s.state == StateClosedByUs)
//@   requires s.role == RoleClient || s.role == RoleServer
//@   let op     = f[0] & 15
//@   let fin    = f[0] & 128 != 0
//@   let rsv    = f[0] & 112 != 0
//@   let masked = f[1] & 128 != 0
//@   let ctl    = op & 8 != 0
//@   let n0     = len(s.pendingFrames)
//@   let violation = rsv || (s.role == RoleClient && masked) || (s.role == RoleServer && !masked) ||
//@                   (ctl && (!fin || declLen(f) > 125 || (op != 8 && op != 9 && op != 10))) ||
//@                   (!ctl && op > 2)
//@   ensures [reported] violation ==> err != nil
//@   ensures [closes] err != nil ==> s.state == StateClosedByUs
//@   ensures [close-1002] err != nil && old(s.state) == StateActive ==> len(s.pendingFrames) == n0 + 1
//@   ensures [close-1002-header] err != nil && old(s.state) == StateActive && len(s.pendingFrames) == n0 + 1 ==>
//@           (*s.pendingFrames[n0])[0] == 136 && int((*s.pendingFrames[n0])[1] & 127) == 2
//@   ensures [close-1002-wire] err != nil && old(s.state) == StateActive && len(s.pendingFrames) == n0 + 1 ==> wireFrame(s, s.pendingFrames[n0])
//@   ensures [close-1002-code] err != nil && old(s.state) == StateActive && s.role == RoleServer && len(s.pendingFrames) == n0 + 1 ==>
//@           int((*s.pendingFrames[n0])[2])*256 + int((*s.pendingFrames[n0])[3]) == 1002
//@   ensures [single-close] err != nil && old(s.state) == StateClosedByUs ==> len(s.pendingFrames) == n0
//@   ensures [order] forall j :: 0 <= j && j < n0 ==> s.pendingFrames[j] == old(s.pendingFrames[j])
//@   ensures [inv] qInv(s)
//@   // replies are built in storage of their own: no byte that existed before is written (the frame just read stays as it was)
//@   ensures [reads-only] unchanged_except(f[0:0])
//@   ensures [queue-storage] (ptr(s.pendingFrames) == old(ptr(s.pendingFrames)) && cap(s.pendingFrames) == old(cap(s.pendingFrames))) || fresh(s.pendingFrames)
//@   modifies s.state, s.pendingFrames, memcap(s.pendingFrames)

// --- the write side: queue and flush (C16 order and completeness, C08 gates) ----------------

// Flush hands the queued frames to the connection one by one, first queued first, each one
// completely (WriteNext returns only when the whole frame is out or the transport failed).
//@ func (*Stream).Flush
//@   prop C16, C08
//@   // the queue invariant is established frame by frame by prepareWrite; that it survives until
//@   // the flush (pooled frames share no storage) is assumed here, not proved
//@   rely wInv(s)
//@   loop 1 invariant 0 <= i && i <= len(s.pendingFrames) && flushed == i && (err != nil ==> false)
//@   loop 1 invariant len(s.pendingFrames) == old(len(s.pendingFrames)) && ptr(s.pendingFrames) == old(ptr(s.pendingFrames)) && s.state == old(s.state)
//@   loop 1 invariant forall j :: 0 <= j && j < len(s.pendingFrames) ==> s.pendingFrames[j] == old(s.pendingFrames[j])
//@   loop 1 invariant s.codecConn != nil && sonic.ccInvS(s.codecConn)
//@   // sizes: the buffers are assumed to stay below 2^46 bytes (the bound under which buffer arithmetic is exact)
//@   assume call WriteNext: cap(s.codecConn.dst.data) <= 1<<46 && cap(s.codecConn.src.data) <= 1<<46
//@   loop 1 invariant forall j :: i <= j && j < len(s.pendingFrames) ==> poolFrame(s.pendingFrames[j])
//@   loop 1 invariant forall j :: i <= j && j < len(s.pendingFrames) ==> frameWF(*s.pendingFrames[j])
//@   loop 1 invariant forall j :: i <= j && j < len(s.pendingFrames) ==> ((s.role == RoleClient) == (((*s.pendingFrames[j])[1] & 128) != 0))
//@   loop 1 invariant forall j :: i <= j && j < len(s.pendingFrames) ==>
//@        disjoint((*s.pendingFrames[j])[0:cap(*s.pendingFrames[j])], s.codecConn.dst.data[0:cap(s.codecConn.dst.data)])
//@   loop 1 invariant forall j, k :: 0 <= j && j < k && k < len(s.pendingFrames) ==>
//@        disjoint((*s.pendingFrames[j])[0:cap(*s.pendingFrames[j])], (*s.pendingFrames[k])[0:cap(*s.pendingFrames[k])])
//@   loop 1 decreases len(s.pendingFrames) - i
//@   // in order: the i-th call gets the i-th queued frame, still exactly header + declared payload
//@   assert call WriteNext: wireFrame(s, s.pendingFrames[i]) && alias(arg1, *s.pendingFrames[i])
//@   ensures [drained] err == nil ==> len(s.pendingFrames) == 0
//@   // what is left is the unsent tail of the queue, untouched and in the same order
//@   ensures [kept-in-order] len(s.pendingFrames) <= old(len(s.pendingFrames)) &&
//@           ptr(s.pendingFrames) == old(ptr(s.pendingFrames)) + (old(len(s.pendingFrames)) - len(s.pendingFrames))
//@   ensures [queue-cells] unchanged_except(s.pendingFrames[0:0])
//@   ensures [state] s.state == old(s.state)
//@   ensures [inv] wInv(s)

// Write: one unfragmented frame per message, exactly the caller's bytes, only while open and
// within the size limit; otherwise nothing is queued and nothing is flushed.
//@ func (*Stream).Write
//@   prop C16
//@   requires qInv(s) && len(b) <= 1<<40 && (s.role == RoleClient || s.role == RoleServer)
//@   let n0  = len(s.pendingFrames)
//@   let ext = (len(b) > 65535) ? 8 : ((len(b) > 125) ? 2 : 0)
//@   let off = 2 + ext + ((s.role == RoleClient) ? 4 : 0)
//@   remember call (*Stream).Flush: flushing = true
//@   // gate: Flush is reached only while open and within the limit
//@   assert call (*Stream).Flush: [C08,C15,C16 gate] len(b) <= s.maxMessageSize && s.state == StateActive && old(s.state) == StateActive
//@   // the frame queued last is FIN + the message type, declares len(b) bytes in the shortest encoding, and is exactly that long
//@   assert call (*Stream).Flush: len(s.pendingFrames) == n0 + 1 && wireFrame(s, s.pendingFrames[n0]) &&
//@          (*s.pendingFrames[n0])[0] == 128 | (byte(messageType) & 15) && len(*s.pendingFrames[n0]) == off + len(b) &&
//@          (len(b) <= 125 ==> int((*s.pendingFrames[n0])[1] & 127) == len(b)) &&
//@          (len(b) > 125 && len(b) <= 65535 ==> (*s.pendingFrames[n0])[1] & 127 == 126) &&
//@          (len(b) > 65535 ==> (*s.pendingFrames[n0])[1] & 127 == 127)
//@   // ... carrying the caller's bytes (XOR the key stored in front of them for a client)
//@   assert call (*Stream).Flush: s.role == RoleServer ==> (forall k :: 0 <= k && k < len(b) ==> (*s.pendingFrames[n0])[off + k] == old(b[k]))
//@   // (stated per length class: the payload offset is then a constant, 2 + {0,2,8} + 4 key bytes)
//@   assert call (*Stream).Flush: [C16 client-short] s.role == RoleClient && len(b) <= 125 ==> (forall k :: 0 <= k && k < len(b) ==>
//@          (*s.pendingFrames[n0])[6 + k] == old(b[k]) ^ (*s.pendingFrames[n0])[2 + (k & 3)])
//@   assert call (*Stream).Flush: [C16 client-medium] s.role == RoleClient && len(b) > 125 && len(b) <= 65535 ==> (forall k :: 0 <= k && k < len(b) ==>
//@          (*s.pendingFrames[n0])[8 + k] == old(b[k]) ^ (*s.pendingFrames[n0])[4 + (k & 3)])
//@   assert call (*Stream).Flush: [C16 client-long] s.role == RoleClient && len(b) > 65535 ==> (forall k :: 0 <= k && k < len(b) ==>
//@          (*s.pendingFrames[n0])[14 + k] == old(b[k]) ^ (*s.pendingFrames[n0])[10 + (k & 3)])
//@   ensures [C15,C16 too-big] len(b) > old(s.maxMessageSize) ==> result == ErrMessageTooBig && len(s.pendingFrames) == n0 && !flushing
//@   ensures [C08,C15,C16 refused] len(b) <= old(s.maxMessageSize) && old(s.state) != StateActive ==>
//@           result == sonicerrors.ErrCancelled && len(s.pendingFrames) == n0 && !flushing && s.state == old(s.state)

// WriteFrame: a caller-built frame (from AcquireFrame, so that a client's frame has room for the
// key) goes out as header + declared payload; refused and recycled when not open.
//@ func (*Stream).WriteFrame
//@   prop C16, C08
//@   requires qInv(s) && poolFrame(f) && hdrFits(*f) && ((s.role == RoleClient) == ((*f)[1] & 128 != 0))
//@   let n0 = len(s.pendingFrames)
//@   remember call (*Stream).Flush: flushing = true
//@   assert call (*Stream).Flush: old(s.state) == StateActive && len(s.pendingFrames) == n0 + 1 && s.pendingFrames[n0] == f && wireFrame(s, f) &&
//@          (*f)[0] == old((*f)[0]) && (*f)[1] == old((*f)[1])
//@   ensures [refused] old(s.state) != StateActive ==> result == sonicerrors.ErrCancelled && len(s.pendingFrames) == n0 && !flushing

// Close: starts the closing handshake once; afterwards application writes are refused (see Write).
//@ func (*Stream).Close
//@   prop C08
//@   requires qInv(s) && len(reason) <= 123 && (s.role == RoleClient || s.role == RoleServer)
//@   let n0 = len(s.pendingFrames)
//@   remember call (*Stream).Flush: flushing = true
//@   assert call (*Stream).Flush: old(s.state) == StateActive && s.state == StateClosedByUs && len(s.pendingFrames) == n0 + 1 &&
//@          (*s.pendingFrames[n0])[0] == 136 && int((*s.pendingFrames[n0])[1] & 127) == 2 + len(reason) && wireFrame(s, s.pendingFrames[n0])
//@   assert call (*Stream).Flush: s.role == RoleServer ==>
//@          int((*s.pendingFrames[n0])[2])*256 + int((*s.pendingFrames[n0])[3]) == int(cc)
//@   ensures [inv] qInv(s)
//@   ensures [once] old(s.state) == StateClosedByUs ==> result == sonicerrors.ErrCancelled && len(s.pendingFrames) == n0 && !flushing && s.state == old(s.state)
//@   ensures [over] old(s.state) != StateActive && old(s.state) != StateClosedByUs && old(s.state) != StateHandshake ==>
//@           result == io.EOF && len(s.pendingFrames) == n0 && !flushing && s.state == old(s.state)

// --- the read side gate (C08: end of stream after the closing handshake, 1006 on a lost transport) ---

// What the connection hands up is a frame the decoder produced. That such a frame is exactly
// header + declared payload is the [frame] postcondition of FrameCodec.Decode (property C07);
// the generic ReadNext loop between the two is not under contract, so the link is assumed here.
//@ func ext:errors.Is
//@   trusted
//@   ensures err == nil && target != nil ==> !result
//@   modifies nothing

//@ func (*Stream).nextFrame
//@   prop C08
//@   requires qInv(s) && s.codecConn != nil && (s.state == StateActive || s.state == StateClosedByUs) && (s.role == RoleClient || s.role == RoleServer)
//@   assume after call ReadNext: result1 == nil ==> len(result0) >= 2 && frameWF(result0) && heapslice(result0)
//@   remember after call ReadNext: lost = result1 == io.EOF
//@   remember after call ReadNext: got = result1 == nil
//@   // an unexpected end of the transport is surfaced as an abnormal closure: a Close frame with code 1006, state terminated
//@   ensures [abnormal] lost ==> err == io.EOF && s.state == StateTerminated && len(f) == 4 && f[0] == 136 && f[1] == 2 &&
//@           int(f[2])*256 + int(f[3]) == 1006 && len(s.pendingFrames) == old(len(s.pendingFrames))
//@   // any other transport error is passed up unchanged, nothing is queued
//@   ensures [error] !lost && !got ==> err != nil && s.state == old(s.state) && len(s.pendingFrames) == old(len(s.pendingFrames))
//@   // a frame delivered without error is the decoder's frame, untouched by the handling of it
//@   ensures [delivered] err == nil ==> len(f) >= 2 && frameWF(f)
//@   ensures [inv] qInv(s) && s.codecConn == old(s.codecConn)

//@ func (*Stream).NextFrame
//@   prop C08
//@   requires s.codecConn != nil && (s.role == RoleClient || s.role == RoleServer)
//@   remember after call (*Stream).Flush: flushOK = result == nil
//@   remember after call (*Stream).Flush: flushEOF = result == io.EOF
//@   // reads go on only while the stream is open or we are waiting for the peer's Close
//@   assert call (*Stream).nextFrame: s.state == StateActive || s.state == StateClosedByUs
//@   ensures [end-of-stream] flushOK && old(s.state) != StateActive && old(s.state) != StateClosedByUs ==> err == io.EOF
//@   // a failed flush is reported as what it is, not as end of stream
//@   ensures [flush-error] !flushOK ==> err != nil && (err == io.EOF ==> flushEOF)
//@   ensures [delivered] err == nil ==> len(f) >= 2 && frameWF(f)
//@   ensures [inv] qInv(s) && s.codecConn == old(s.codecConn)

// --- the message level (C15 fragmentation rules; C06: what lands in the caller's buffer) ------

//@ func (*Stream).NextMessage
//@   prop C15, C06
//@   requires s.codecConn != nil && (s.role == RoleClient || s.role == RoleServer) && len(b) <= 1<<40
//@   loop 1 invariant s.codecConn != nil && (s.role == RoleClient || s.role == RoleServer) && 0 <= readBytes && readBytes <= len(b)
//@   // the caller's buffer is not the stream's own read buffer, in which the frame lives
//@   assume after call (*Stream).NextFrame: result1 == nil ==> disjoint(b, result0[0:cap(result0)])
//@   // the fragmentation rules, frame by frame (continuation$head: a message is in progress when this frame arrives):
//@   // a continuation frame needs a message in progress, a new data frame must not interrupt one
//@   assert at "if err != nil || !continuation": [C15 fragmentation] (!continuation$head && f[0] & 15 == 0 ==> err == ErrUnexpectedContinuation) &&
//@          (continuation$head && f[0] & 15 != 0 ==> err == ErrExpectedContinuation) &&
//@          ((continuation$head == (f[0] & 15 == 0)) ==> err == nil)
//@   // C06: the payload of each data frame is copied right behind what was read before, as far as the buffer reaches
//@   assert at "if readBytes > s.maxMessageSize": [C06 appended] readBytes == readBytes$head + n &&
//@          n == min(len(b) - readBytes$head, len(Frame.Payload(f))) &&
//@          (forall k :: 0 <= k && k < n ==> b[readBytes$head + k] == Frame.Payload(f)[k])
//@   // the message's type is the opcode of its first data frame and stays that
//@   assert at "if readBytes > s.maxMessageSize": [C06 type] (messageType$head == TypeNone ==> messageType == MessageType(f[0] & 15)) &&
//@          (messageType$head != TypeNone ==> messageType == messageType$head)
//@   // a frame that does not fit into the buffer, or a message above the limit, ends the read with an error
//@   assert at "if err != nil || !continuation": [C15,C06 fits] n == Frame.PayloadLength(f) && readBytes <= s.maxMessageSize
//@   // the message goes on exactly while the FIN bit is clear
//@   assert at "if err != nil || !continuation": [C06 ends-at-fin] continuation == (f[0] & 128 == 0)
//@   ensures [in-buffer] 0 <= readBytes && readBytes <= len(b)
//@   ensures [C15 too-big] readBytes > s.maxMessageSize ==> err != nil

// The asynchronous message API runs the same per-frame step in a completion closure. The
// recursion that drives it (asyncNextMessage -> AsyncNextFrame -> closure -> asyncNextMessage)
// and AsyncClose are not under contract; what the step does with one frame is.
//@ func (*Stream).asyncNextMessage
//@   trusted
//@ func (*Stream).AsyncClose
//@   trusted
//@ func fnparam:(*Stream).asyncNextMessage$1.callback
//@   trusted

//@ func (*Stream).asyncNextMessage$1
//@   prop C15, C06
//@   requires s != nil && s.codecConn != nil && callback != nil && 0 <= readBytes && readBytes <= len(b) && len(b) <= 1<<40
//@   requires err == nil ==> len(f) >= 2 && frameWF(f) && heapslice(f) && disjoint(b, f[0:cap(f)])
//@   // a continuation frame needs a message in progress, a new data frame must not interrupt one
//@   assert at "if err != nil || !continuation": [C15 fragmentation] (!old(continuation) && f[0] & 15 == 0 ==> err == ErrUnexpectedContinuation) &&
//@          (old(continuation) && f[0] & 15 != 0 ==> err == ErrExpectedContinuation) &&
//@          ((old(continuation) == (f[0] & 15 == 0)) ==> err == nil)
//@   // the payload of a data frame is copied right behind what was read before, as far as the buffer reaches
//@   assert at "if readBytes > s.maxMessageSize": [C06 appended] readBytes == old(readBytes) + n &&
//@          n == min(len(b) - old(readBytes), len(Frame.Payload(f))) &&
//@          (forall k :: 0 <= k && k < n ==> b[old(readBytes) + k] == Frame.Payload(f)[k])
//@   assert at "if readBytes > s.maxMessageSize": [C06 type-a] old(messageType) != TypeNone ==> messageType == old(messageType)
//@   assert at "if readBytes > s.maxMessageSize": [C06 type-b] old(messageType) == TypeNone ==> messageType == MessageType(Frame.Opcode(f))
//@   // a frame that does not fit into the buffer, or a message above the limit, ends the read with an
//@   // error - and nothing else does
//@   assert at "if err != nil || !continuation": [C15,C06 fits] n == Frame.PayloadLength(f) && readBytes <= s.maxMessageSize
//@   assert call AsyncClose: [C06 too-big-only] readBytes > s.maxMessageSize || n != Frame.PayloadLength(f)
//@   // the message goes on exactly while the FIN bit is clear
//@   assert at "if err != nil || !continuation": [C06 ends-at-fin] continuation == (f[0] & 128 == 0)
//@   // a control frame between fragments changes nothing of the message being assembled
//@   assert call (*Stream).asyncNextMessage: [C06 carried-on] arg1 == b && arg2 == readBytes && arg3 == continuation && arg4 == messageType && arg5 == callback

// AsyncFlush is Flush one frame per completion: the head of the queue goes to the connection,
// the rest stays queued in the same order, and the completion closure either reports the
// transport's error or flushes on with the same callback. (What AsyncWriteNext does with the
// frame is the asynchronous twin of WriteNext and is not under contract.)
//@ func fnparam:(*Stream).AsyncFlush.callback
//@   trusted
//@ func fnparam:(*Stream).AsyncFlush$1.callback
//@   trusted

//@ func (*Stream).AsyncFlush
//@   prop C16, C08
//@   requires s.codecConn != nil && callback != nil && qInv(s)
//@   // first queued first: the frame handed over is the head, and the queue is what was behind it
//@   assert any call AsyncWriteNext: [in-order] alias(arg1, *old(s.pendingFrames[0])) &&
//@          len(s.pendingFrames) == old(len(s.pendingFrames)) - 1 &&
//@          (forall j :: 0 <= j && j < len(s.pendingFrames) ==> s.pendingFrames[j] == old(s.pendingFrames[j + 1]))
//@   // nothing to flush is success, reported now
//@   assert any call callback: [idle] old(len(s.pendingFrames)) == 0 && arg0 == nil

//@ func (*Stream).AsyncFlush$1
//@   prop C16, C08
//@   requires s != nil && s.codecConn != nil && callback != nil && sent != nil && poolFrame(sent) && qInv(s)
//@   // a transport error ends the flush and is reported as it is; otherwise the flush goes on with the same callback
//@   assert any call callback: [error-ends] err != nil && arg0 == err
//@   assert any call (*Stream).AsyncFlush: [goes-on] err == nil && arg1 == callback
