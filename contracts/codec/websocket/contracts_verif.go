//go:build verif

package websocket

// Contracts for the RFC 6455 frame codec (properties C07, C15, C16, C06).

//@ pred codecInv(c *FrameCodec) =
//@   c.src != nil && sonic.bbInv(c.src) &&
//@   (c.decodeReset ==> 0 <= len(c.decodeFrame) && len(c.decodeFrame) <= c.src.ri - c.src.si)

//@ func (*FrameCodec).resetDecode
//@   prop C07, C06
//@   requires codecInv(c)
//@   let drop = c.decodeReset ? len(c.decodeFrame) : 0
//@   ensures [inv] codecInv(c) && !c.decodeReset
//@   ensures [consumed] c.src.si == old(c.src.si) && c.src.ri == old(c.src.ri) - drop && c.src.wi == old(c.src.wi) - drop
//@   ensures [same-array] ptr(c.src.data) == old(ptr(c.src.data)) && cap(c.src.data) == old(cap(c.src.data))
//@   ensures [stream] forall j :: c.src.si <= j && j < c.src.wi ==> c.src.data[j] == old(c.src.data[j + drop])
//@   ensures [saved] forall j :: 0 <= j && j < c.src.si ==> c.src.data[j] == old(c.src.data[j])

//@ func (*FrameCodec).Decode
//@   prop C07, C06
//@   requires codecInv(c) && src == c.src && c.maxMessageSize <= 1<<40 && cap(src.data) <= 1<<46
//@   // the unconsumed stream U starts where the previously returned frame ends
//@   let drop  = c.decodeReset ? len(c.decodeFrame) : 0
//@   let k     = src.si + drop
//@   let avail = src.wi - src.si - drop
//@   let b1    = src.data[k+1]
//@   let ext   = (b1 & 127 == 127) ? 8 : ((b1 & 127 == 126) ? 2 : 0)
//@   let mlen  = (b1 & 128 != 0) ? 4 : 0
//@   let decl  = (b1 & 127 == 127) ?
//@               (uint64(src.data[k+2])<<56 + uint64(src.data[k+3])<<48 + uint64(src.data[k+4])<<40 + uint64(src.data[k+5])<<32 +
//@                uint64(src.data[k+6])<<24 + uint64(src.data[k+7])<<16 + uint64(src.data[k+8])<<8 + uint64(src.data[k+9])) :
//@               ((b1 & 127 == 126) ? (uint64(src.data[k+2])<<8 + uint64(src.data[k+3])) : uint64(b1 & 127))
//@   let hdr   = 2 + ext + mlen
//@   assert call Reserve: 0 <= arg1 && arg1 <= c.maxMessageSize
//@   ensures [inv] codecInv(c)
//@   ensures [stream-kept] src.si == old(src.si) && src.wi == old(src.wi) - drop &&
//@           (forall j :: 0 <= j && j < avail ==> src.data[src.si + j] == old(src.data[k + j]))
//@   ensures [short-header] avail < 2 || avail < 2 + ext ==> len(result0) == 0 && result1 == sonicerrors.ErrNeedMore && !c.decodeReset
//@   ensures [over-max] avail >= 2 + ext && (decl > uint64(max(c.maxMessageSize, 0)) || c.maxMessageSize < 0) ==>
//@           len(result0) == 0 && result1 == ErrPayloadOverMaxSize && !c.decodeReset
//@   ensures [incomplete] avail >= 2 + ext && c.maxMessageSize >= 0 && decl <= uint64(c.maxMessageSize) && uint64(avail) < uint64(hdr) + decl ==>
//@           len(result0) == 0 && result1 == sonicerrors.ErrNeedMore && !c.decodeReset
//@   ensures [frame] avail >= 2 + ext && c.maxMessageSize >= 0 && decl <= uint64(c.maxMessageSize) && uint64(avail) >= uint64(hdr) + decl ==>
//@           result1 == nil && c.decodeReset && len(result0) == hdr + int(decl) &&
//@           alias(result0, src.data[src.si : src.si + hdr + int(decl)]) && alias(c.decodeFrame, result0)

// Encode appends exactly len(frame) bytes to the read area of dst (committed), so the bytes put
// on the wire for a frame are its header plus its declared payload and nothing else.
//@ func (*FrameCodec).Encode
//@   prop C16, C07
//@   requires dst != nil && sonic.bbInv(dst) && cap(dst.data) <= 1<<43 && frameWF(frame) && len(frame) <= 1<<40 &&
//@            disjoint(frame, dst.data[0:cap(dst.data)]) && dst.wi == dst.ri
//@   inline call (Frame).WriteTo
//@   loop (Frame).WriteTo#1 invariant 0 <= written && written <= len(f) && sonic.bbInv(dst) && dst.si == old(dst.si) && dst.ri == old(dst.ri) &&
//@          dst.wi == old(dst.wi) + written && len(f) - written <= cap(dst.data) - dst.wi && cap(dst.data) <= 1<<46
//@   // every chunk handed to the buffer is the next unwritten part of the frame
//@   assert call ByteBuffer).Write: alias(arg1, frame[written:])
//@   ensures [appended] result == nil ==> sonic.bbInv(dst) && dst.si == old(dst.si) && dst.ri == old(dst.ri) + len(frame) && dst.wi == dst.ri
//@   ensures [failed] result != nil ==> sonic.bbInv(dst) && dst.wi - dst.si == old(dst.wi - dst.si)
