//go:build verif

package sonic

// Contracts for sonic.Timer (property C04).

//@ immutable [C04] Timer.ioc Timer.it constructors NewTimer

//@ pred tArmed(t *Timer) = internal.armed(&t.it.slot, internal.PollerReadEvent)

// A schedule is pending exactly when the timer's read interest is armed; a closed timer is
// never armed.
//@ pred tInv(t *Timer) =
//@   t.ioc != nil && t.it != nil && internal.tiInv(t.it) &&
//@   (t.state == stateScheduled) == tArmed(t) && t.state <= stateClosed &&
//@   !internal.armed(&t.it.slot, internal.PollerWriteEvent)

// Rely on user callbacks: they leave the timer consistent (every public operation does).
//@ func fnparam:(*Timer).*.cb
//@   trusted
//@   ensures internal.pInv(t.it.poller) && tInv(t)

//@ func (*Timer).Scheduled
//@   pure

// The callback the internal timer runs on expiry: the timer is Ready again before the user
// callback runs (so the callback may schedule it again), and the callback runs once.
//@ func (*Timer).ScheduleOnce$1
//@   prop C04
//@   requires t != nil && tInv(t) && cb != nil
//@   assert call cb: t.state == stateReady
//@   consumes cb

//@ func (*Timer).ScheduleOnce
//@   prop C04
//@   requires tInv(t) && cb != nil
//@   // a timer holds at most one schedule: scheduling while scheduled (or closed) fails and disturbs nothing
//@   ensures [busy] old(t.state) != stateReady ==> err != nil && invoked(cb) == 0 && t.state == old(t.state) &&
//@           t.cancelled == old(t.cancelled) && tArmed(t) == old(tArmed(t)) &&
//@           t.it.poller.pending == old(t.it.poller.pending)
//@   // a cancellation that the repeating wrapper has not looked at yet is not erased by scheduling:
//@   // the flag is as it was when the callback runs (inline) or is handed to the internal timer
//@   assert any call cb: [cancellation-kept] t.cancelled == old(t.cancelled)
//@   assert any call Set: [cancellation-kept-armed] t.cancelled == old(t.cancelled)
//@   ensures [immediate] old(t.state) == stateReady && delay <= 0 ==> invoked(cb) == 1
//@   ensures [armed] old(t.state) == stateReady && delay > 0 && err == nil ==> invoked(cb) == 0 && t.state == stateScheduled && tArmed(t) &&
//@           t.it.poller.pending == old(t.it.poller.pending) + 1
//@   ensures [failed] old(t.state) == stateReady && delay > 0 && err != nil ==> invoked(cb) == 0 && t.state == stateReady && !tArmed(t)
//@   ensures [inv] invoked(cb) == 0 ==> tInv(t)

//@ func (*Timer).Cancel
//@   prop C04
//@   requires tInv(t)
//@   ensures [cancelled] result == nil ==> !tArmed(t) && (old(t.state) != stateClosed ==> t.state == stateReady && t.cancelled)
//@   // a closed timer cannot be revived
//@   ensures [closed-stays] old(t.state) == stateClosed ==> t.state == stateClosed
//@   ensures [failed] result != nil ==> t.state == old(t.state)
//@   ensures [inv] tInv(t)

//@ func (*Timer).Close
//@   prop C04, C13
//@   requires tInv(t)
//@   ensures [closed] err == nil ==> t.state == stateClosed && !tArmed(t)
//@   ensures [second] old(t.state) == stateClosed ==> err == nil && (forall k :: FDOPEN[k] == old(FDOPEN[k]))
//@   ensures [inv] tInv(t)

// The repeating wrapper: after the user callback returns, re-arm for a full interval unless
// the timer was cancelled meanwhile.
//@ func (*Timer).ScheduleRepeating$1
//@   prop C04
//@   requires t != nil && cb != nil && ccb != nil && repeat > 0
//@   assert call ScheduleOnce: !t.cancelled && arg1 == repeat
//@   consumes cb

//@ func (*Timer).ScheduleRepeating
//@   prop C04
//@   requires tInv(t) && cb != nil
//@   ensures [rejected] repeat <= 0 ==> result != nil && t.state == old(t.state) && tArmed(t) == old(tArmed(t)) && invoked(cb) == 0
//@   // a cancellation made before the repetition starts is not meant for it
//@   assert call ScheduleOnce: arg1 == repeat && repeat > 0 && (t.state == stateReady ==> !t.cancelled)
