//go:build verif

package bytes

// Contracts for MirroredBuffer (property C11).

//@ pred mbInv(b *MirroredBuffer) =
//@   b.size > 0 && b.size <= 1<<46 && b.sizeMask == b.size - 1 &&
//@   len(b.slice) == 2*b.size &&
//@   0 <= b.head && b.head < b.size && 0 <= b.tail && b.tail < b.size &&
//@   0 <= b.used && b.used <= b.size &&
//@   b.tail == ((b.head + b.used >= b.size) ? b.head + b.used - b.size : b.head + b.used)

//@ func (*MirroredBuffer).FreeSpace
//@   pure
//@ func (*MirroredBuffer).UsedSpace
//@   pure
//@ func (*MirroredBuffer).Full
//@   pure
//@ func (*MirroredBuffer).Size
//@   pure

//@ func (*MirroredBuffer).Claim
//@   prop C11
//@   requires mbInv(b) && n >= 0
//@   ensures [inv] mbInv(b)
//@   ensures [amount] len(result) == min(n, b.size - b.used)
//@   ensures [position] len(result) > 0 ==> alias(result, b.slice[b.tail : b.tail + len(result)])
//@   ensures [inside] b.tail + len(result) <= len(b.slice)
//@   ensures [no-overlap] len(result) <= b.FreeSpace() && b.UsedSpace() + b.FreeSpace() == b.Size()
//@   modifies nothing

//@ func (*MirroredBuffer).Commit
//@   prop C11
//@   requires mbInv(b) && n >= 0
//@   let k = min(n, b.size - b.used)
//@   ensures [inv] mbInv(b)
//@   ensures [amount] result == k && b.used == old(b.used) + k && b.head == old(b.head)
//@   ensures [ring] b.tail == ((old(b.tail) + k >= b.size) ? old(b.tail) + k - b.size : old(b.tail) + k)
//@   ensures [sum] b.UsedSpace() + b.FreeSpace() == b.Size()
//@   modifies b.used, b.tail

//@ func (*MirroredBuffer).Consume
//@   prop C11
//@   requires mbInv(b) && n >= 0
//@   let k = min(n, b.used)
//@   ensures [inv] mbInv(b)
//@   ensures [amount] result == k && b.used == old(b.used) - k && b.tail == old(b.tail)
//@   ensures [ring] b.head == ((old(b.head) + k >= b.size) ? old(b.head) + k - b.size : old(b.head) + k)
//@   ensures [sum] b.UsedSpace() + b.FreeSpace() == b.Size()
//@   modifies b.used, b.head

//@ func (*MirroredBuffer).Reset
//@   prop C11
//@   requires mbInv(b)
//@   ensures [inv] mbInv(b) && b.used == 0 && b.head == 0 && b.tail == 0
//@   modifies b.head, b.tail, b.used
