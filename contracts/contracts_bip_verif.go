//go:build verif

package sonic

// Contracts for BipBuffer (property C10). Comment-only file: no executable code.

//@ pred bipInv(b *BipBuffer) =
//@   b.wrappedHead == 0 && 0 <= b.wrappedTail && b.wrappedTail <= b.head &&
//@   b.head <= b.tail && b.tail <= len(b.data) &&
//@   (b.wrappedTail > 0 ==> b.head < b.tail) &&
//@   (b.head == b.tail ==> b.head == 0 && b.wrappedTail == 0) &&
//@   0 <= b.claimHead && b.claimHead <= b.claimTail && b.claimTail <= len(b.data) &&
//@   ( b.claimHead == b.claimTail || b.head == b.tail ||
//@     (b.wrappedTail > 0  && b.claimHead == b.wrappedTail && b.claimTail <= b.head) ||
//@     (b.wrappedTail == 0 && b.claimHead == b.tail) ||
//@     (b.wrappedTail == 0 && b.claimHead == 0 && b.claimTail <= b.head) )

//@ func (*BipBuffer).Committed
//@   pure
//@ func (*BipBuffer).Claimed
//@   pure
//@ func (*BipBuffer).Size
//@   pure
//@ func (*BipBuffer).Wrapped
//@   pure
//@ func (*BipBuffer).Empty
//@   pure

//@ func (*BipBuffer).Claim
//@   prop C10
//@   requires bipInv(buf) && n >= 0
//@   ensures  [inv] bipInv(buf)
//@   ensures  [len] len(result) <= n
//@   ensures  [window] len(result) > 0 ==> alias(result, buf.data[buf.claimHead:buf.claimTail])
//@   ensures  [disjoint] disjoint(result, buf.data[buf.head:buf.tail]) &&
//@            disjoint(result, buf.data[buf.wrappedHead:buf.wrappedTail])
//@   ensures  [inside] len(result) > 0 ==> ptr(buf.data) <= ptr(result) && ptr(result) + len(result) <= ptr(buf.data) + len(buf.data)
//@   ensures  [empty-grants-all] old(buf.Empty()) ==> len(result) == min(n, len(buf.data))
//@   modifies buf.claimHead, buf.claimTail

//@ func (*BipBuffer).Commit
//@   prop C10
//@   requires bipInv(buf) && n >= 0
//@   ensures  [inv] bipInv(buf) && buf.claimHead == 0 && buf.claimTail == 0
//@   ensures  [count] len(result) == min(n, old(buf.Claimed()))
//@   ensures  [chunk] len(result) > 0 ==>
//@            alias(result, buf.data[old(buf.claimHead) : old(buf.claimHead)+len(result)])
//@   ensures  [committed] buf.Committed() == old(buf.Committed()) + len(result)
//@   ensures  [fifo-wrapped] old(buf.wrappedTail) > 0 ==>
//@            buf.head == old(buf.head) && buf.tail == old(buf.tail) &&
//@            buf.wrappedTail == old(buf.wrappedTail) + len(result)
//@   ensures  [fifo-linear] old(buf.wrappedTail) == 0 && old(buf.Committed()) > 0 ==>
//@            buf.head == old(buf.head) &&
//@            ( (buf.tail == old(buf.tail) + len(result) && buf.wrappedTail == 0) ||
//@              (buf.tail == old(buf.tail) && buf.wrappedTail == len(result)) )
//@   ensures  [fifo-empty] old(buf.Committed()) == 0 ==>
//@            buf.tail - buf.head == len(result) && buf.wrappedTail == 0
//@   modifies buf.head, buf.tail, buf.wrappedTail, buf.claimHead, buf.claimTail

//@ func (*BipBuffer).Consume
//@   prop C10
//@   requires bipInv(buf) && n >= 0
//@   ensures  [inv] bipInv(buf)
//@   ensures  [front] n <  old(buf.tail - buf.head) ==>
//@            buf.head == old(buf.head) + n && buf.tail == old(buf.tail) &&
//@            buf.wrappedTail == old(buf.wrappedTail)
//@   ensures  [front-all] n >= old(buf.tail - buf.head) ==>
//@            buf.head == 0 && buf.tail == old(buf.wrappedTail) && buf.wrappedTail == 0
//@   ensures  [claim-kept] buf.claimHead == old(buf.claimHead) && buf.claimTail == old(buf.claimTail)
//@   modifies buf.head, buf.tail, buf.wrappedHead, buf.wrappedTail

//@ func (*BipBuffer).Head
//@   prop C10
//@   requires bipInv(buf)
//@   ensures  [head] (buf.head < buf.tail ==> alias(result, buf.data[buf.head:buf.tail])) &&
//@            (buf.head == buf.tail ==> len(result) == 0)
//@   modifies nothing

//@ func (*BipBuffer).Reset
//@   prop C10
//@   ensures  [inv] len(buf.data) >= 0 ==> bipInv(buf)
//@   ensures  [empty] buf.Empty()
//@   modifies buf.head, buf.tail, buf.wrappedHead, buf.wrappedTail, buf.claimHead, buf.claimTail

//@ func NewBipBuffer
//@   prop C10
//@   requires 0 <= n && n <= 1<<47
//@   ensures  [inv] bipInv(result) && result.Empty() && len(result.data) == n
//@   modifies nothing
