//go:build verif

package sonic

// Contracts for IO and file (properties C01, C02, C03, C14, C13).

// Set once by the constructors; survive call-outs to user callbacks.
//@ immutable [C01,C02,C14] file.ioc fileReadReactor.file fileWriteReactor.file IO.poller constructors newFile, NewIO

//@ func ext:syscall.Read
//@   trusted
//@   ensures err == nil ==> 0 <= n && n <= len(p)
//@   // the kernel reports errnos, never one of this library's own error values
//@   ensures err != sonicerrors.ErrWouldBlock && err != io.EOF
//@   modifies mem(p)

//@ func ext:syscall.Write
//@   trusted
//@   ensures err == nil ==> 0 <= n && n <= len(p)
//@   ensures err != sonicerrors.ErrWouldBlock && err != io.EOF
//@   modifies nothing

//@ pred fInv(f *file) =
//@   f.ioc != nil && f.ioc.poller != nil && internal.pInv(f.ioc.poller) &&
//@   f.readReactor.file == f && f.writeReactor.file == f && 0 <= f.slot.Fd

//@ pred armedR(f *file) = internal.armed(&f.slot, internal.PollerReadEvent)
//@ pred armedW(f *file) = internal.armed(&f.slot, internal.PollerWriteEvent)

// Rely on completion callbacks (user code): when one returns, the poller is consistent and the
// dispatch depth is what it was (every library entry point restores it, see C14).
//@ func fnparam:(*file).*.cb
//@   trusted
//@   ensures internal.pInv(f.ioc.poller) && f.ioc.Dispatched == old(f.ioc.Dispatched)

//@ func (*file).Closed
//@   pure

//@ func (*IO).Register
//@   prop C13
//@   requires slot != nil && 0 <= slot.Fd
//@ func (*IO).Deregister
//@   prop C13
//@   requires slot != nil && 0 <= slot.Fd

//@ func (*file).Read
//@   prop C02
//@   requires fInv(f)
//@   remember after call syscall.Read: again = result1 == errno(11)
//@   remember after call syscall.Read: other = result1 != nil && result1 != errno(11)
//@   remember after call syscall.Read: kzero = result1 == nil && result0 == 0
//@   remember after call syscall.Read: kn := result0
//@   // EAGAIN/EWOULDBLOCK (11 on linux) is "would block", not an error of the stream; 0 bytes is end of stream
//@   ensures [would-block] again ==> result1 == sonicerrors.ErrWouldBlock
//@   ensures [real-errors-kept] other ==> result1 != nil && result1 != sonicerrors.ErrWouldBlock
//@   ensures [eof] kzero ==> result1 == io.EOF
//@   ensures [count] result1 == nil ==> result0 == kn
//@   // the count is what the kernel moved: positive on success, zero with an error
//@   ensures [ok] result1 == nil ==> 0 < result0 && result0 <= len(b)
//@   ensures [err] result1 != nil ==> result0 == 0
//@   modifies mem(b)

//@ func (*file).Write
//@   prop C02
//@   requires fInv(f)
//@   remember after call syscall.Write: again = result1 == errno(11)
//@   remember after call syscall.Write: other = result1 != nil && result1 != errno(11)
//@   remember after call syscall.Write: kzero = result1 == nil && result0 == 0
//@   remember after call syscall.Write: kn := result0
//@   ensures [would-block] again ==> result1 == sonicerrors.ErrWouldBlock
//@   ensures [real-errors-kept] other ==> result1 != nil && result1 != sonicerrors.ErrWouldBlock
//@   ensures [eof] kzero ==> result1 == io.EOF
//@   ensures [count] result1 == nil ==> result0 == kn
//@   ensures [ok] result1 == nil ==> 0 < result0 && result0 <= len(b)
//@   ensures [err] result1 != nil ==> result0 == 0
//@   modifies nothing

//@ func (*file).scheduleRead
//@   prop C01, C02, C03
//@   // a completion made here (closed, or the registration failed) is an error with no more than the progress made
//@   assert any call cb: [C02 count-bounded] arg0 != nil && (arg1 == 0 || arg1 == readSoFar)
//@   requires fInv(f) && cb != nil && !armedR(f)
//@   // either the callback runs now (closed, or the registration failed) or the read is armed
//@   consumes cb unless armedR(f)
//@   ensures [armed] invoked(cb) == 0 ==> f.readReactor.readSoFar == readSoFar && f.slot.Handlers[0] == f.readReactor.onRead &&
//@           f.ioc.poller.pending == old(f.ioc.poller.pending) + 1
//@   ensures [write-side] invoked(cb) == 0 ==> armedW(f) == old(armedW(f))
//@   ensures [reactor-kept] invoked(cb) == 0 ==> f.readReactor.b == old(f.readReactor.b) && f.readReactor.readAll == old(f.readReactor.readAll) &&
//@           f.readReactor.cb == old(f.readReactor.cb)
//@   ensures [depth] f.ioc.Dispatched == old(f.ioc.Dispatched)

//@ func (*file).asyncReadNow
//@   prop C01, C02, C14, C19
//@   requires fInv(f) && cb != nil && !armedR(f) && 0 <= readSoFar && readSoFar <= len(b)
//@   requires f.readReactor.b == b && f.readReactor.readAll == readAll
//@   // chunk k lands right after chunk k-1: the transport is handed exactly b[readSoFar:]
//@   assert call file).Read: alias(arg1, b[readSoFar:])
//@   // the count reported is the progress made; success of ReadAll means the whole buffer
//@   assert call cb: old(readSoFar) <= arg1 && arg1 <= len(b) && (arg0 == nil && readAll ==> arg1 == len(b)) && (arg0 == nil && !readAll ==> arg1 > old(readSoFar))
//@   remember after call file).Read: moved = result1 == nil
//@   remember after call file).Read: kn := result0
//@   assert call cb: [C02,C19 exact-count] arg1 == old(readSoFar) + kn
//@   // success is reported only if the transfer attempted now succeeded
//@   assert call cb: [C02,C19 no-swallowed-error] arg0 == nil ==> moved
//@   remember after call file).Read: failed = result1 != nil && result1 != sonicerrors.ErrWouldBlock
//@   // would-block is waited for, never reported; any other error is reported now, not waited on
//@   assert call cb: [C02,C19 would-block-not-reported] arg0 != sonicerrors.ErrWouldBlock
//@   consumes cb unless armedR(f)
//@   ensures [armed] invoked(cb) == 0 ==> f.slot.Handlers[0] == f.readReactor.onRead &&
//@           readSoFar <= f.readReactor.readSoFar && f.readReactor.readSoFar <= len(b) &&
//@           f.readReactor.b == b && f.readReactor.readAll == readAll
//@   ensures [C02,C19 work-left] invoked(cb) == 0 && old(readSoFar) < len(b) ==> f.readReactor.readSoFar < len(b)
//@   ensures [C02,C19 progress-recorded] invoked(cb) == 0 ==> f.readReactor.readSoFar == old(readSoFar) + kn
//@   ensures [C02,C19 errors-reported] failed ==> invoked(cb) == 1
//@   ensures [depth] f.ioc.Dispatched == old(f.ioc.Dispatched)

//@ func fnparam:(*fileReadReactor).onRead.cb
//@   trusted
//@   ensures internal.pInv(r.file.ioc.poller) && r.file.ioc.Dispatched == old(r.file.ioc.Dispatched)

// The handler the poller dispatches for a deferred read: completes the operation recorded in
// the reactor exactly once (or re-arms it for the remainder of a ReadAll).
//@ func (*fileReadReactor).onRead
//@   prop C01, C02
//@   requires r.file != nil && fInv(r.file) && &r.file.readReactor == r && !armedR(r.file)
//@   requires r.cb != nil && 0 <= r.readSoFar && r.readSoFar <= len(r.b)
//@   // a cancellation or poller error is reported with the progress made so far
//@   assert call cb: err != nil && arg0 == err && arg1 == old(r.readSoFar)
//@   consumes r.cb unless armedR(r.file)
//@   ensures [depth] r.file.ioc.Dispatched == old(r.file.ioc.Dispatched)

// The wrapper that runs an inline completion one level deeper.
//@ func (*file).asyncRead$1
//@   prop C14, C01
//@   requires f != nil && fInv(f) && cb != nil && 0 <= f.ioc.Dispatched && f.ioc.Dispatched < MaxCallbackDispatch
//@   // nesting of inline completions never exceeds the limit
//@   assert call cb: 1 <= f.ioc.Dispatched && f.ioc.Dispatched <= MaxCallbackDispatch && arg0 == err && arg1 == n
//@   consumes cb
//@   ensures [depth] f.ioc.Dispatched == old(f.ioc.Dispatched)

//@ func (*file).asyncRead
//@   prop C01, C02, C14
//@   requires fInv(f) && cb != nil && !armedR(f) && 0 <= f.ioc.Dispatched && f.ioc.Dispatched <= MaxCallbackDispatch
//@   inline call (*file).asyncReadNow
//@   consumes cb unless armedR(f)
//@   // at the limit nothing is attempted inline: the operation is deferred to the poller
//@   assert call file).Read: f.ioc.Dispatched < MaxCallbackDispatch
//@   // the caller's callback is never run by the start function itself outside the counted window
//@   assert any call cb: [C14 counted] f.ioc.Dispatched > old(f.ioc.Dispatched)
//@   ensures [armed] invoked(cb) == 0 ==> f.readReactor.b == b && f.readReactor.readAll == readAll && f.readReactor.cb == cb &&
//@           f.slot.Handlers[0] == f.readReactor.onRead && 0 <= f.readReactor.readSoFar && f.readReactor.readSoFar <= len(b)
//@   ensures [depth] f.ioc.Dispatched == old(f.ioc.Dispatched)

// --- write side (mirror of the read side) ---

//@ func (*file).scheduleWrite
//@   prop C01, C02, C03
//@   // a completion made here (closed, or the registration failed) is an error with no more than the progress made
//@   assert any call cb: [C02 count-bounded] arg0 != nil && (arg1 == 0 || arg1 == wroteSoFar)
//@   requires fInv(f) && cb != nil && !armedW(f)
//@   // either the callback runs now (closed, or the registration failed) or the write is armed
//@   consumes cb unless armedW(f)
//@   ensures [armed] invoked(cb) == 0 ==> f.writeReactor.wroteSoFar == wroteSoFar && f.slot.Handlers[1] == f.writeReactor.onWrite &&
//@           f.ioc.poller.pending == old(f.ioc.poller.pending) + 1
//@   ensures [read-side] invoked(cb) == 0 ==> armedR(f) == old(armedR(f))
//@   ensures [reactor-kept] invoked(cb) == 0 ==> f.writeReactor.b == old(f.writeReactor.b) && f.writeReactor.writeAll == old(f.writeReactor.writeAll) &&
//@           f.writeReactor.cb == old(f.writeReactor.cb)
//@   ensures [depth] f.ioc.Dispatched == old(f.ioc.Dispatched)

//@ func (*file).asyncWriteNow
//@   prop C01, C02, C14, C19
//@   requires fInv(f) && cb != nil && !armedW(f) && 0 <= wroteSoFar && wroteSoFar <= len(b)
//@   requires f.writeReactor.b == b && f.writeReactor.writeAll == writeAll
//@   // chunk k lands right after chunk k-1: the transport is handed exactly b[wroteSoFar:]
//@   assert call file).Write: alias(arg1, b[wroteSoFar:])
//@   // the count reported is the progress made; success of WriteAll means the whole buffer
//@   assert call cb: old(wroteSoFar) <= arg1 && arg1 <= len(b) && (arg0 == nil && writeAll ==> arg1 == len(b)) && (arg0 == nil && !writeAll ==> arg1 > old(wroteSoFar))
//@   remember after call file).Write: moved = result1 == nil
//@   remember after call file).Write: kn := result0
//@   // the count is exactly what was moved before plus what the kernel moved now - in the callback
//@   // and in the progress recorded for the continuation (a prefix sent twice, or bytes skipped, otherwise)
//@   assert call cb: [C02,C19 exact-count] arg1 == old(wroteSoFar) + kn
//@   // success is reported only if the transfer attempted now succeeded
//@   assert call cb: [C02,C19 no-swallowed-error] arg0 == nil ==> moved
//@   remember after call file).Write: failed = result1 != nil && result1 != sonicerrors.ErrWouldBlock
//@   // would-block is waited for, never reported; any other error is reported now, not waited on
//@   assert call cb: [C02,C19 would-block-not-reported] arg0 != sonicerrors.ErrWouldBlock
//@   consumes cb unless armedW(f)
//@   ensures [armed] invoked(cb) == 0 ==> f.slot.Handlers[1] == f.writeReactor.onWrite &&
//@           wroteSoFar <= f.writeReactor.wroteSoFar && f.writeReactor.wroteSoFar <= len(b) &&
//@           f.writeReactor.b == b && f.writeReactor.writeAll == writeAll
//@   // a continuation is armed only while bytes remain: a WriteAll that has moved everything is
//@   // reported done now, not after waiting for writability to write nothing (which reads as EOF)
//@   ensures [C02,C19 work-left] invoked(cb) == 0 && old(wroteSoFar) < len(b) ==> f.writeReactor.wroteSoFar < len(b)
//@   ensures [C02,C19 progress-recorded] invoked(cb) == 0 ==> f.writeReactor.wroteSoFar == old(wroteSoFar) + kn
//@   ensures [C02,C19 errors-reported] failed ==> invoked(cb) == 1
//@   ensures [depth] f.ioc.Dispatched == old(f.ioc.Dispatched)


//@ func fnparam:(*fileWriteReactor).onWrite.cb
//@   trusted
//@   ensures internal.pInv(r.file.ioc.poller) && r.file.ioc.Dispatched == old(r.file.ioc.Dispatched)

// The handler the poller dispatches for a deferred write: completes the operation recorded in
// the reactor exactly once (or re-arms it for the remainder of a WriteAll).
//@ func (*fileWriteReactor).onWrite
//@   prop C01, C02
//@   requires r.file != nil && fInv(r.file) && &r.file.writeReactor == r && !armedW(r.file)
//@   requires r.cb != nil && 0 <= r.wroteSoFar && r.wroteSoFar <= len(r.b)
//@   // a cancellation or poller error is reported with the progress made so far
//@   assert call cb: err != nil && arg0 == err && arg1 == old(r.wroteSoFar)
//@   consumes r.cb unless armedW(r.file)
//@   ensures [depth] r.file.ioc.Dispatched == old(r.file.ioc.Dispatched)

// The wrapper that runs an inline completion one level deeper.
//@ func (*file).asyncWrite$1
//@   prop C14, C01
//@   requires f != nil && fInv(f) && cb != nil && 0 <= f.ioc.Dispatched && f.ioc.Dispatched < MaxCallbackDispatch
//@   // nesting of inline completions never exceeds the limit
//@   assert call cb: 1 <= f.ioc.Dispatched && f.ioc.Dispatched <= MaxCallbackDispatch && arg0 == err && arg1 == n
//@   consumes cb
//@   ensures [depth] f.ioc.Dispatched == old(f.ioc.Dispatched)

//@ func (*file).asyncWrite
//@   prop C01, C02, C14
//@   requires fInv(f) && cb != nil && !armedW(f) && 0 <= f.ioc.Dispatched && f.ioc.Dispatched <= MaxCallbackDispatch
//@   inline call (*file).asyncWriteNow
//@   consumes cb unless armedW(f)
//@   // at the limit nothing is attempted inline: the operation is deferred to the poller
//@   assert call file).Write: f.ioc.Dispatched < MaxCallbackDispatch
//@   assert any call cb: [C14 counted] f.ioc.Dispatched > old(f.ioc.Dispatched)
//@   ensures [armed] invoked(cb) == 0 ==> f.writeReactor.b == b && f.writeReactor.writeAll == writeAll && f.writeReactor.cb == cb &&
//@           f.slot.Handlers[1] == f.writeReactor.onWrite && 0 <= f.writeReactor.wroteSoFar && f.writeReactor.wroteSoFar <= len(b)
//@   ensures [depth] f.ioc.Dispatched == old(f.ioc.Dispatched)

// --- cancel / close -------------------------------------------------------------------------

// open descriptors (ghost): FDOPEN[fd] == 1 while the process owns descriptor fd
//@ ghostmap FDOPEN

//@ func ext:syscall.Close
//@   trusted
//@   ensures forall k :: FDOPEN[k] == ((k == fd) ? 0 : old(FDOPEN[k]))
//@   modifies FDOPEN

//@ func (*file).cancelReads
//@   prop C01
//@   requires fInv(f) && (armedR(f) ==> f.slot.Handlers[0] != nil)
//@   // the interest is removed before the handler runs, and the handler gets a non-nil (cancellation) error
//@   assert call Handlers: !armedR(f) && arg0 != nil
//@   // an armed read is completed exactly once; nothing is invoked when no read is in flight
//@   consumes f.slot.Handlers[0] unless !old(armedR(f))
//@   ensures [idle] !old(armedR(f)) ==> invoked(old(f.slot.Handlers[0])) == 0 && f.ioc.poller.pending == old(f.ioc.poller.pending)

//@ func (*file).cancelWrites
//@   prop C01
//@   requires fInv(f) && (armedW(f) ==> f.slot.Handlers[1] != nil)
//@   assert call Handlers: !armedW(f) && arg0 != nil
//@   consumes f.slot.Handlers[1] unless !old(armedW(f))
//@   ensures [idle] !old(armedW(f)) ==> invoked(old(f.slot.Handlers[1])) == 0 && f.ioc.poller.pending == old(f.ioc.poller.pending)

//@ func (*file).Close
//@   prop C01, C13, C03
//@   requires fInv(f)
//@   // only the first Close touches the descriptor: a later one cannot close a descriptor number
//@   // that the kernel may meanwhile have handed to someone else
//@   assert call syscall.Close: old(f.closed) == 0 && arg0 == f.slot.Fd
//@   ensures [already-closed] old(f.closed) != 0 ==> result != nil && f.closed == old(f.closed) &&
//@           (forall k :: FDOPEN[k] == old(FDOPEN[k]))
//@   // after Close returns no operation of the object is armed, so no callback can be dispatched
//@   ensures [disarmed] old(f.closed) == 0 ==> !armedR(f) && !armedW(f) && f.closed == 1
//@   ensures [accounting] old(f.closed) == 0 ==> f.ioc.poller.pending == old(f.ioc.poller.pending) - (old(armedR(f)) ? 1 : 0) - (old(armedW(f)) ? 1 : 0)
//@   // Close releases the descriptor the object owns, whatever the poller answers
//@   ensures [released] old(f.closed) == 0 ==> FDOPEN[f.slot.Fd] == 0

// --- the event loop (C03) -------------------------------------------------------------------

//@ pred ioInv(ioc *IO) = ioc.poller != nil && internal.pInv(ioc.poller)

//@ func (*IO).Pending
//@   requires ioc.poller != nil
//@   pure

//@ func (*IO).poll
//@   prop C03
//@   requires ioInv(ioc)
//@   // a wait interrupted by a signal is never wrapped into an error
//@   assert call os.NewSyscallError: arg1 != errno(4) && arg1 != sonicerrors.ErrTimeout
//@   // nothing ready within the timeout is a timeout, not success
//@   ensures [timeout] result1 == nil && result0 == 0 ==> timeoutMs < 0
//@   ensures [count] result1 == nil ==> result0 >= 0
//@   ensures [error-count] result1 != nil ==> result0 == 0
//@   ensures [inv] ioInv(ioc)

//@ func (*IO).RunPending
//@   prop C03
//@   requires ioInv(ioc)
//@   loop 1 invariant ioInv(ioc)
//@   // the loop is entered only while something is pending: RunPending never blocks with nothing in flight
//@   assert call RunOne: ioc.poller.pending > 0
//@   // and returns success exactly when nothing is pending any more
//@   ensures [drained] result == nil ==> ioc.poller.pending <= 0

//@ func (*IO).RunOne
//@   prop C03
//@   requires ioInv(ioc)
//@   ensures [inv] ioInv(ioc)

//@ func (*IO).PollOne
//@   prop C03
//@   requires ioInv(ioc)
//@   ensures [timeout] err == nil && n == 0 ==> false
//@   ensures [count] err == nil ==> n > 0
//@   ensures [inv] ioInv(ioc)
