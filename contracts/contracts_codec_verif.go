//go:build verif

package sonic

// Interface contracts for codecs and contracts for CodecConn (properties C19, C06, C16, C17).

// Encoder.Encode: on success the serialized item is appended after the bytes already in dst
// (it may or may not be committed to the read area; CodecConn commits before sending); on
// failure dst is as before.
//@ func iface:Encoder.Encode
//@   trusted
//@   requires dst != nil && bbInv(dst) && cap(dst.data) <= 1<<46 && disjoint(item, dst.data[0:cap(dst.data)])
//@   ensures [inv] bbInv(dst) && dst.si == old(dst.si) && dst.ri >= old(dst.ri) && dst.ri - dst.si <= old(dst.ri - dst.si) + (dst.wi - old(dst.wi))
//@   ensures [failed] result != nil ==> dst.wi - dst.si == old(dst.wi - dst.si)
//@   // the buffer's storage is the same array as before or a newly allocated one
//@   ensures [storage] (ptr(dst.data) == old(ptr(dst.data)) && cap(dst.data) == old(cap(dst.data))) || fresh(dst.data)
//@   modifies fields(dst), memcap(dst.data)

// Decoder.Decode: never touches the save area; the marks stay ordered.
//@ func iface:Decoder.Decode
//@   trusted
//@   requires src != nil && bbInv(src) && cap(src.data) <= 1<<46
//@   ensures [inv] bbInv(src) && src.si == old(src.si)
//@   modifies fields(src), memcap(src.data)

// --- CodecConn -------------------------------------------------------------------------------

// structural part of the connection invariant, and the full one with the size bound under
// which the arithmetic of the buffers is exact (buffers below 2^46 bytes)
//@ pred ccInvS(c *CodecConn) =
//@   c.src != nil && c.dst != nil && c.src != c.dst && bbInv(c.src) && bbInv(c.dst) && c.codec != nil && c.stream != nil
//@ pred ccInv(c *CodecConn) =
//@   c.src != nil && c.dst != nil && c.src != c.dst && bbInv(c.src) && bbInv(c.dst) &&
//@   cap(c.src.data) <= 1<<46 && cap(c.dst.data) <= 1<<46 && c.codec != nil && c.stream != nil

//@ func (*CodecConn).WriteNext
//@   prop C19
//@   requires ccInv(c) && disjoint(item, c.dst.data[0:cap(c.dst.data)])
//@   ensures [inv] bbInv(c.dst) && c.dst.si == old(c.dst.si)
//@   // after a write completes successfully nothing of the item is left behind
//@   ensures [nothing-left] err == nil ==> c.dst.wi == c.dst.si
//@   ensures [storage] (ptr(c.dst.data) == old(ptr(c.dst.data)) && cap(c.dst.data) == old(cap(c.dst.data))) || fresh(c.dst.data)
//@   ensures [conn] ccInvS(c)
//@   // only the write buffer changes (the transport is assumed not to touch our heap)
//@   modifies fields(c.dst), memcap(c.dst.data)

// The asynchronous twin of WriteNext (encode, then AsyncWriteTo with a completion closure) is
// not under contract; callers state what they hand to it.
//@ func (*CodecConn).AsyncWriteNext
//@   trusted
