//go:build verif

package ipv4

// Multicast socket options (property C12: the settings a peer reports equal the kernel's).
// The kernel is outside the verified code: its answer is whatever GetsockoptInt returns, and
// what it is told is whatever SetsockoptInt is called with.

//@ func ext:syscall.SetsockoptInt
//@   trusted
//@   modifies nothing
//@ func ext:syscall.GetsockoptInt
//@   trusted
//@   modifies nothing

//@ func SetMulticastLoop
//@   prop C12
//@   requires socket != nil
//@   // IPPROTO_IP = 0, IP_MULTICAST_LOOP = 34: the kernel is told 1 for "loop", 0 otherwise
//@   assert call syscall.SetsockoptInt: arg0 == socket.fd && arg1 == 0 && arg2 == 34 && arg3 == (loop ? 1 : 0)

//@ func GetMulticastLoop
//@   prop C12
//@   requires socket != nil
//@   remember after call syscall.GetsockoptInt: kernelLoops = result0 != 0
//@   assert call syscall.GetsockoptInt: arg0 == socket.fd && arg1 == 0 && arg2 == 34
//@   // the reported setting is the kernel's: non-zero means multicast packets are looped back
//@   ensures [reports-kernel-state] result1 == nil ==> result0 == kernelLoops

//@ func SetMulticastTTL
//@   prop C12
//@   requires socket != nil
//@   // IP_MULTICAST_TTL = 33
//@   assert call syscall.SetsockoptInt: arg0 == socket.fd && arg1 == 0 && arg2 == 33 && arg3 == int(ttl)

//@ func GetMulticastTTL
//@   prop C12
//@   requires socket != nil
//@   remember after call syscall.GetsockoptInt: kernelTTL := result0
//@   assert call syscall.GetsockoptInt: arg0 == socket.fd && arg1 == 0 && arg2 == 33
//@   // the kernel's value (0..255) is reported as it is
//@   ensures [reports-kernel-state] result1 == nil && 0 <= kernelTTL && kernelTTL <= 255 ==> int(result0) == kernelTTL

//@ func ext:syscall.SetsockoptByte
//@   trusted
//@   modifies nothing

//@ func SetMulticastAll
//@   prop C12
//@   requires socket != nil
//@   // IP_MULTICAST_ALL = 49 (linux): the kernel is told 1 for "all", 0 otherwise
//@   assert call syscall.SetsockoptByte: arg0 == socket.fd && arg1 == 0 && arg2 == 49 && arg3 == (all ? 1 : 0)

// --- membership requests (C12: a peer receives the groups and sources it asked for) ---
// What the kernel does with a request is outside the code; what is decided here is that each
// request names the right operation on the right socket and carries the request that was built.
// IP_ADD_MEMBERSHIP = 35, IP_DROP_MEMBERSHIP = 36, IP_UNBLOCK_SOURCE = 37, IP_BLOCK_SOURCE = 38,
// IP_ADD_SOURCE_MEMBERSHIP = 39, IP_DROP_SOURCE_MEMBERSHIP = 40; SYS_SETSOCKOPT = 54 (linux/amd64).

//@ func ext:net/netip.Addr.AsSlice
//@   trusted
//@   modifies nothing
//@ func ext:syscall.SetsockoptIPMreq
//@   trusted
//@   modifies nothing

//@ func prepareDropMembership
//@   prop C12
//@   ensures [fresh-request] result != nil

//@ func DropMembership
//@   prop C12
//@   requires socket != nil
//@   remember after call prepareDropMembership: req := result
//@   assert call syscall.SetsockoptIPMreq: arg0 == socket.fd && arg1 == 0 && arg2 == 36 && arg3 == req

//@ func DropSourceMembership
//@   prop C12
//@   requires socket != nil
//@   assert call syscall.Syscall6: arg0 == 54 && int(arg1) == socket.fd && arg2 == 0 && arg3 == 40 && arg5 == 12
//@   assert call syscall.Syscall6: [request-bytes] forall i :: 0 <= i && i < 4 ==> mreqSource.Multiaddr[i] == mreq.Multiaddr[i]
//@   // the kernel's verdict is the caller's: an errno is returned, success is nil
//@   remember after call syscall.Syscall6: refused = result2 != 0
//@   ensures [outcome] (err != nil) == refused

//@ func BlockSource
//@   prop C12
//@   requires socket != nil
//@   assert call syscall.Syscall6: arg0 == 54 && int(arg1) == socket.fd && arg2 == 0 && arg3 == 38 && arg5 == 12
//@   // the kernel's verdict is the caller's: an errno is returned, success is nil
//@   remember after call syscall.Syscall6: refused = result2 != 0
//@   ensures [outcome] (err != nil) == refused

//@ func UnblockSource
//@   prop C12
//@   requires socket != nil
//@   assert call syscall.Syscall6: arg0 == 54 && int(arg1) == socket.fd && arg2 == 0 && arg3 == 37 && arg5 == 12
//@   // the kernel's verdict is the caller's: an errno is returned, success is nil
//@   remember after call syscall.Syscall6: refused = result2 != 0
//@   ensures [outcome] (err != nil) == refused

// Building an add request looks the interface's addresses up (loop, type switch over net.Addr):
// outside the contracts.
//@ func prepareAddMembership
//@   trusted
//@   ensures result1 == nil ==> result0 != nil
//@   modifies nothing

//@ func AddMembership
//@   prop C12
//@   requires socket != nil
//@   remember after call prepareAddMembership: req := result0
//@   remember after call prepareAddMembership: built = result1 == nil
//@   // no request is made when none could be built
//@   assert call syscall.SetsockoptIPMreq: built && arg0 == socket.fd && arg1 == 0 && arg2 == 35 && arg3 == req

//@ func AddSourceMembership
//@   prop C12
//@   requires socket != nil
//@   remember after call prepareAddMembership: built = result1 == nil
//@   assert call syscall.Syscall6: built && arg0 == 54 && int(arg1) == socket.fd && arg2 == 0 && arg3 == 39 && arg5 == 12
//@   remember after call syscall.Syscall6: refused = result2 != 0
//@   ensures [outcome] built ==> (result != nil) == refused
//@   // the request carries the group and interface of the request that was built
//@   assert call syscall.Syscall6: [request-bytes] forall i :: 0 <= i && i < 4 ==> mreqSource.Multiaddr[i] == mreq.Multiaddr[i] && mreqSource.Interface[i] == mreq.Interface[i]
