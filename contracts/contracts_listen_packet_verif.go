//go:build verif

package sonic

// Contracts for listener and packetConn (properties C01, C14, C12, C13).

//@ immutable [C01,C14] listener.ioc packetConn.ioc constructors Listen, NewPacketConn

//@ pred lInv(l *listener) = l.ioc != nil && l.ioc.poller != nil && internal.pInv(l.ioc.poller) && 0 <= l.slot.Fd
//@ pred lArmed(l *listener) = internal.armed(&l.slot, internal.PollerReadEvent)

//@ func fnparam:(*listener).*.cb
//@   trusted
//@   ensures internal.pInv(l.ioc.poller) && l.ioc.Dispatched == old(l.ioc.Dispatched)

//@ func (*listener).handleAsyncAccept$1
//@   prop C01
//@   requires l != nil && lInv(l) && cb != nil
//@   // a poller error or cancellation is passed on; otherwise the result of exactly one accept
//@   assert call cb#1: arg0 == err
//@   consumes cb

//@ func (*listener).asyncAccept
//@   prop C01, C03
//@   requires lInv(l) && cb != nil && !lArmed(l)
//@   consumes cb unless lArmed(l)
//@   ensures [armed] invoked(cb) == 0 ==> l.ioc.poller.pending == old(l.ioc.poller.pending) + 1 && l.slot.Handlers[0] != nil
//@   ensures [depth] l.ioc.Dispatched == old(l.ioc.Dispatched)

//@ func (*listener).AsyncAccept
//@   prop C01, C14
//@   requires lInv(l) && cb != nil && !lArmed(l) && 0 <= l.ioc.Dispatched && l.ioc.Dispatched <= MaxCallbackDispatch
//@   // the immediate attempt is made only below the dispatch limit, and completes one level deeper
//@   assert call listener).accept: l.ioc.Dispatched < MaxCallbackDispatch
//@   assert call cb: 1 <= l.ioc.Dispatched && l.ioc.Dispatched <= MaxCallbackDispatch
//@   // would-block is waited for, never reported; any other error of the immediate attempt is reported now
//@   remember after call listener).accept: failed = result1 != nil && result1 != sonicerrors.ErrWouldBlock
//@   assert call cb: [C01 would-block-not-reported] arg0 != sonicerrors.ErrWouldBlock
//@   consumes cb unless lArmed(l)
//@   ensures [C01 errors-reported] failed ==> invoked(cb) == 1
//@   ensures [depth] l.ioc.Dispatched == old(l.ioc.Dispatched)

// --- packetConn ---

//@ pred pcInv(c *packetConn) = c.ioc != nil && c.ioc.poller != nil && internal.pInv(c.ioc.poller) && 0 <= c.slot.Fd
//@ pred pcArmedR(c *packetConn) = internal.armed(&c.slot, internal.PollerReadEvent)
//@ pred pcArmedW(c *packetConn) = internal.armed(&c.slot, internal.PollerWriteEvent)

//@ func fnparam:(*packetConn).*.cb
//@   trusted
//@   ensures internal.pInv(c.ioc.poller) && c.ioc.Dispatched == old(c.ioc.Dispatched)

//@ func (*packetConn).Closed
//@   pure

//@ func ext:syscall.Recvfrom
//@   trusted
//@   ensures err == nil ==> 0 <= n && n <= len(p)
//@   modifies mem(p)

//@ func (*packetConn).ReadFrom
//@   prop C12
//@   requires pcInv(c)
//@   // one recvfrom per call, into exactly the caller's buffer; the count is the datagram's (truncated) length
//@   assert call syscall.Recvfrom: arg0 == c.slot.Fd && alias(arg1, b) && arg2 == 0
//@   remember after call syscall.Recvfrom: again = result2 == errno(11)
//@   remember after call syscall.Recvfrom: kn := result0
//@   remember after call syscall.Recvfrom: kok = result2 == nil
//@   // EAGAIN/EWOULDBLOCK (11 on linux) is "would block"; otherwise the count is the kernel's
//@   ensures [would-block] again ==> err == sonicerrors.ErrWouldBlock
//@   ensures [count] err == nil ==> n == kn && kok
//@   ensures [ok] err == nil ==> 0 < n && n <= len(b)
//@   ensures [err] err != nil ==> n == 0
//@   modifies mem(b)

//@ func (*packetConn).WriteTo
//@   prop C12
//@   requires pcInv(c)
//@   // one sendto per call with exactly the caller's bytes
//@   assert call syscall.Sendto: arg0 == c.slot.Fd && alias(arg1, b) && arg2 == 0
//@   remember after call syscall.Sendto: again = result == errno(11)
//@   remember after call syscall.Sendto: kok = result == nil
//@   ensures [would-block] again ==> result == sonicerrors.ErrWouldBlock
//@   ensures [outcome] (result == nil) == kok
//@   modifies nothing

//@ func (*packetConn).scheduleRead
//@   prop C01, C03
//@   requires pcInv(c) && cb != nil && !pcArmedR(c)
//@   consumes cb unless pcArmedR(c)
//@   ensures [armed] invoked(cb) == 0 ==> c.ioc.poller.pending == old(c.ioc.poller.pending) + 1 && c.slot.Handlers[0] != nil
//@   ensures [write-side] invoked(cb) == 0 ==> pcArmedW(c) == old(pcArmedW(c))
//@   ensures [depth] c.ioc.Dispatched == old(c.ioc.Dispatched)

//@ func (*packetConn).asyncReadNow
//@   prop C01, C12
//@   requires pcInv(c) && cb != nil && !pcArmedR(c)
//@   // the datagram is received into the caller's buffer
//@   assert call packetConn).ReadFrom: [C12 buffer] alias(arg1, b)
//@   remember after call packetConn).ReadFrom: moved = result2 == nil
//@   remember after call packetConn).ReadFrom: got := result0
//@   remember after call packetConn).ReadFrom: from := result1
//@   // success is reported only if the datagram read now succeeded; would-block is waited for, never reported
//@   assert call cb: [C12 no-swallowed-error] (arg0 == nil ==> moved) && arg0 != sonicerrors.ErrWouldBlock
//@   // a completed read reports that datagram's length and sender
//@   assert call cb: [C12 length-and-sender] arg0 == nil ==> arg1 == old(readBytes) + got && arg2 == from
//@   consumes cb unless pcArmedR(c)
//@   ensures [depth] c.ioc.Dispatched == old(c.ioc.Dispatched)

//@ func (*packetConn).getReadHandler$1
//@   prop C01
//@   // the handler itself reports only the poller's error; success is reported by the operation it then attempts
//@   assert call cb: err != nil && arg0 == err
//@   // the deferred read is attempted into the buffer it was started with
//@   assert call asyncReadNow: [C12 resumed-as-started] alias(arg1, b) && arg2 == readBytes && arg3 == readAll
//@   requires c != nil && pcInv(c) && cb != nil && !pcArmedR(c)
//@   consumes cb unless pcArmedR(c)

//@ func (*packetConn).asyncReadFrom$1
//@   prop C14, C01
//@   requires c != nil && pcInv(c) && cb != nil && 0 <= c.ioc.Dispatched && c.ioc.Dispatched < MaxCallbackDispatch
//@   assert call cb: 1 <= c.ioc.Dispatched && c.ioc.Dispatched <= MaxCallbackDispatch && arg0 == err && arg1 == n
//@   consumes cb
//@   ensures [depth] c.ioc.Dispatched == old(c.ioc.Dispatched)

//@ func (*packetConn).asyncReadFrom
//@   prop C01, C14
//@   requires pcInv(c) && cb != nil && !pcArmedR(c) && 0 <= c.ioc.Dispatched && c.ioc.Dispatched <= MaxCallbackDispatch
//@   inline call (*packetConn).asyncReadNow
//@   assert call packetConn).ReadFrom: c.ioc.Dispatched < MaxCallbackDispatch
//@   assert any call cb: [C14 counted] c.ioc.Dispatched > old(c.ioc.Dispatched)
//@   consumes cb unless pcArmedR(c)
//@   ensures [depth] c.ioc.Dispatched == old(c.ioc.Dispatched)

//@ func (*packetConn).scheduleWrite
//@   prop C01, C03
//@   requires pcInv(c) && cb != nil && !pcArmedW(c)
//@   consumes cb unless pcArmedW(c)
//@   ensures [armed] invoked(cb) == 0 ==> c.ioc.poller.pending == old(c.ioc.poller.pending) + 1 && c.slot.Handlers[1] != nil
//@   ensures [read-side] invoked(cb) == 0 ==> pcArmedR(c) == old(pcArmedR(c))
//@   ensures [depth] c.ioc.Dispatched == old(c.ioc.Dispatched)

//@ func (*packetConn).asyncWriteToNow
//@   prop C01, C12
//@   requires pcInv(c) && cb != nil && !pcArmedW(c)
//@   // one attempt, with exactly the caller's bytes and destination
//@   assert call packetConn).WriteTo: [C12 datagram] alias(arg1, b) && arg2 == to
//@   remember after call packetConn).WriteTo: moved = result == nil
//@   assert call cb: [C12 no-swallowed-error] (arg0 == nil ==> moved) && arg0 != sonicerrors.ErrWouldBlock
//@   consumes cb unless pcArmedW(c)
//@   ensures [depth] c.ioc.Dispatched == old(c.ioc.Dispatched)

//@ func (*packetConn).getWriteHandler$1
//@   prop C01
//@   // the handler itself reports only the poller's error; success is reported by the operation it then attempts
//@   assert call cb: err != nil && arg0 == err
//@   // the deferred write is attempted with the bytes and destination it was started with
//@   assert call asyncWriteToNow: [C12 resumed-as-started] alias(arg1, b) && arg2 == to
//@   requires c != nil && pcInv(c) && cb != nil && !pcArmedW(c)
//@   consumes cb unless pcArmedW(c)

//@ func (*packetConn).AsyncWriteTo$1
//@   prop C14, C01
//@   requires c != nil && pcInv(c) && cb != nil && 0 <= c.ioc.Dispatched && c.ioc.Dispatched < MaxCallbackDispatch
//@   assert call cb: 1 <= c.ioc.Dispatched && c.ioc.Dispatched <= MaxCallbackDispatch && arg0 == err
//@   consumes cb
//@   ensures [depth] c.ioc.Dispatched == old(c.ioc.Dispatched)

//@ func (*packetConn).AsyncWriteTo
//@   prop C01, C14
//@   requires pcInv(c) && cb != nil && !pcArmedW(c) && 0 <= c.ioc.Dispatched && c.ioc.Dispatched <= MaxCallbackDispatch
//@   inline call (*packetConn).asyncWriteToNow
//@   assert call packetConn).WriteTo: c.ioc.Dispatched < MaxCallbackDispatch
//@   assert any call cb: [C14 counted] c.ioc.Dispatched > old(c.ioc.Dispatched)
//@   consumes cb unless pcArmedW(c)
//@   ensures [depth] c.ioc.Dispatched == old(c.ioc.Dispatched)

//@ func ext:syscall.Sendto
//@   trusted
//@   modifies nothing

//@ func (*listener).Close
//@   prop C01, C03, C13
//@   requires lInv(l)
//@   // only the first Close touches the descriptor (see packetConn.Close)
//@   assert call syscall.Close: [C13 first-close-only] old(l.closed) == 0 && arg0 == l.slot.Fd
//@   ensures [C13 already-closed] old(l.closed) != 0 ==> l.closed == old(l.closed) && (forall k :: FDOPEN[k] == old(FDOPEN[k]))
//@   ensures [disarmed] old(l.closed) == 0 ==> !lArmed(l) && !internal.armed(&l.slot, internal.PollerWriteEvent) && l.closed == 1
//@   ensures [accounting] old(l.closed) == 0 ==> l.ioc.poller.pending == old(l.ioc.poller.pending) - (old(lArmed(l)) ? 1 : 0) - (old(internal.armed(&l.slot, internal.PollerWriteEvent)) ? 1 : 0)
//@   ensures [C13 released] old(l.closed) == 0 ==> FDOPEN[l.slot.Fd] == 0

//@ func (*packetConn).Close
//@   prop C01, C03, C13
//@   requires pcInv(c)
//@   // only the first Close touches the descriptor: a later one cannot close a descriptor number
//@   // that the kernel may meanwhile have handed to someone else
//@   assert call syscall.Close: [C13 first-close-only] old(c.closed) == 0 && arg0 == c.slot.Fd
//@   ensures [C13 already-closed] old(c.closed) != 0 ==> c.closed == old(c.closed) && (forall k :: FDOPEN[k] == old(FDOPEN[k]))
//@   ensures [disarmed] old(c.closed) == 0 ==> !pcArmedR(c) && !pcArmedW(c) && c.closed == 1
//@   ensures [accounting] old(c.closed) == 0 ==> c.ioc.poller.pending == old(c.ioc.poller.pending) - (old(pcArmedR(c)) ? 1 : 0) - (old(pcArmedW(c)) ? 1 : 0)
//@   ensures [C13 released] old(c.closed) == 0 ==> FDOPEN[c.slot.Fd] == 0

// --- Socket (used by the multicast peer and the IPv4 option wrappers, C12) ---
//@ func (*Socket).RawFd
//@   prop C12
//@   ensures [descriptor] result == s.fd
//@   modifies nothing

//@ func (*Socket).Close
//@   prop C13
//@   // the descriptor is closed once: afterwards the socket no longer names it, so a second
//@   // Close cannot close a number the kernel has handed to someone else
//@   assert any call syscall.Close: [first-close-only] old(s.fd) >= 0 && arg0 == old(s.fd)
//@   ensures [released] old(s.fd) >= 0 ==> FDOPEN[old(s.fd)] == 0 && s.fd < 0
//@   ensures [already-closed] old(s.fd) < 0 ==> s.fd == old(s.fd) && (forall k :: FDOPEN[k] == old(FDOPEN[k]))
//@   ensures [nothing-else] forall k :: k != old(s.fd) ==> FDOPEN[k] == old(FDOPEN[k])

// --- constructors (C13): failure leaves the descriptor table as it was ---
//@ func ext:fmt.Errorf
//@   trusted
//@   ensures result != nil
//@   modifies nothing

//@ func NewPacketConn
//@   prop C13
//@   requires len(network) >= 3
//@   ensures [no-leak] result1 != nil ==> (forall k :: FDOPEN[k] == old(FDOPEN[k]))
//@   // success hands out a connection whose descriptor is open
//@   remember after call CreateSocketUDP: made = result2 == nil
//@   remember after call CreateSocketUDP: nfd := result0
//@   ensures [opened] result1 == nil ==> made && FDOPEN[nfd] == 1 && result0 != nil

//@ func Listen
//@   prop C13
//@   requires len(network) >= 3
//@   ensures [no-leak] result1 != nil ==> (forall k :: FDOPEN[k] == old(FDOPEN[k]))
//@   // success hands out a listener whose descriptor is open
//@   remember after call internal.Listen: made = result2 == nil
//@   remember after call internal.Listen: nfd := result0
//@   ensures [opened] result1 == nil ==> made && FDOPEN[nfd] == 1 && result0 != nil

//@ func DialTimeout
//@   prop C13
//@   requires len(network) >= 3
//@   ensures [no-leak] result1 != nil ==> (forall k :: FDOPEN[k] == old(FDOPEN[k]))
//@   remember after call ConnectTimeout: made = result3 == nil
//@   remember after call ConnectTimeout: nfd := result0
//@   ensures [opened] result1 == nil ==> made && FDOPEN[nfd] == 1 && result0 != nil

// accept(2) hands out a new descriptor on success only
//@ func ext:syscall.Accept
//@   trusted
//@   ensures err == nil ==> nfd >= 0 && old(FDOPEN[nfd]) == 0 && (forall k :: FDOPEN[k] == ((k == nfd) ? 1 : old(FDOPEN[k])))
//@   ensures err != nil ==> nfd < 0 && (forall k :: FDOPEN[k] == old(FDOPEN[k]))
//@   modifies FDOPEN
//@ func ext:os.NewSyscallError
//@   trusted
//@   modifies nothing

//@ func (*listener).accept
//@   prop C13
//@   requires lInv(l)
//@   // a failed accept leaves the descriptors that really exist (numbers >= 0) as they were
//@   ensures [no-leak] result1 != nil ==> (forall k :: k >= 0 ==> FDOPEN[k] == old(FDOPEN[k]))
//@   // accept builds a new connection object; nothing that existed before is written
//@   modifies FDOPEN

//@ func NewSocket
//@   prop C13
//@   ensures [no-leak] result1 != nil ==> (forall k :: FDOPEN[k] == old(FDOPEN[k]))
//@   ensures [opened] result1 == nil ==> result0 != nil && result0.fd >= 0 &&
//@           (forall k :: FDOPEN[k] == ((k == result0.fd) ? 1 : old(FDOPEN[k])))
//@   ensures [fresh] result1 == nil ==> (forall k :: k == result0.fd ==> old(FDOPEN[k]) == 0)
